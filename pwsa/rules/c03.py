"""C03 - everything pywbem puts on the wire is well-formed, DTD-valid
CIM-XML.  Decides attribute/element validity of the writer classes against
the DTD, the shape of child lists, header/body agreement, typed parameters
and the presence of an XML-character validation on the send path."""
import ast

from ..model import (AnalysisError, walk_no_nested, dotted, norm, const_str)
from .. import dtd as dtdmod
from .. import xmltables as X
from ..ops import OPS, ENVELOPES

EXPLANATION = (
    "Static check of the CIM-XML writer against the DSP0203 DTD "
    "(tests/dtd/DSP0203_2.3.1.dtd, read on every run): (R1) every attribute "
    "a writer class can emit is declared for its element, every #REQUIRED "
    "attribute is emitted unconditionally, enumerated attributes receive "
    "literals or str(bool).lower() values from the declared value set; (R2) "
    "every writer class names an element the DTD declares; (R3) the child "
    "list of each writer class is compatible with the content model: EMPTY "
    "elements append nothing, #PCDATA elements append only text nodes, "
    "element content is appended only from parameters (never text), and "
    "the number of child-appending statements does not exceed the model's "
    "particles; every construction site passes as many positional "
    "arguments as the class accepts; (R4) in the three envelope functions "
    "the CIMMethod/CIMExportMethod header and the method element receive "
    "the same variable, and the CIMObject header is computed from the same "
    "namespace/object that is serialised into the body; (R5) in "
    "_methodcall the type chains of infer_type() and paramvalue() cover the "
    "same types and every PARAMVALUE gets a paramtype; (R6) some function "
    "on every send path must reject characters XML 1.0 cannot represent "
    "(minidom does not) - presence/absence of such a guard before toxml(). "
    "Well-formedness/validity of the produced bytes for arbitrary values is "
    "a property of xml.dom.minidom and is not decided.")
ASSUMPTIONS = [
    "tests/dtd/DSP0203_2.3.1.dtd is the DSP0203 DTD",
    "xml.dom.minidom escapes markup characters in text and attribute nodes "
    "but does not reject characters outside the XML 1.0 Char production",
]

LS = 'pywbem/_listener.py'


def array_kind_decided_by_all_items(repo, rep):
    """C03.R10: VALUE.ARRAY may contain only VALUE / VALUE.NULL and
    VALUE.REFARRAY only VALUE.REFERENCE / VALUE.NULL.  A function that
    builds one of them from the items of a list with a per-item encoder
    that returns VALUE.REFERENCE for paths and VALUE for everything else
    must therefore have established, for *all* items, which kind they are:
    on the path to `VALUE_ARRAY(...)` no item is a reference
    (`not any(isinstance(x, <paths>) for x in items)`), on the path to
    `VALUE_REFARRAY(...)` all of them are.  A decision from the first item
    alone sends `<VALUE.ARRAY><VALUE>a</VALUE><VALUE.REFERENCE>...` for
    ['a', path] - a request the DTD does not allow (repaired in 36019a9)."""
    from ..paths import return_paths, _Block
    from ..cfg import GuardWalker
    r10 = rep.rule('C03.R10', 'the element chosen for an array value '
                   '(VALUE.ARRAY / VALUE.REFARRAY) is decided from all items')
    OPSF = 'pywbem/_cim_operations.py'
    REFS = {'CIMClassName', 'CIMInstanceName'}
    n = 0
    for f in repo.module(OPSF).all_funcs():
        nested = [x for x in ast.walk(f.node)
                  if isinstance(x, ast.FunctionDef) and x is not f.node]
        for fn in [f.node] + nested:
            # an encoder: returns VALUE_REFERENCE for some value and builds
            # arrays from calls of itself
            kinds = {(dotted(x.func) or '').split('.')[-1]
                     for x in walk_no_nested(fn) if isinstance(x, ast.Call)}
            if not ({'VALUE_ARRAY', 'VALUE_REFARRAY'} & kinds and
                    'VALUE_REFERENCE' in kinds):
                continue
            paths = return_paths(_Block(fn.body, f), max_paths=200,
                                 inline=False) or []
            for p_ in paths:
                v = p_.value
                for _ in range(3):
                    # `node = VALUE_ARRAY(...)` ... `return node`
                    if isinstance(v, ast.Name) and v.id in p_.env:
                        v = p_.env[v.id][0]
                if not (isinstance(v, ast.Call) and
                        (dotted(v.func) or '').split('.')[-1] in (
                            'VALUE_ARRAY', 'VALUE_REFARRAY') and v.args):
                    continue
                kind = dotted(v.func).split('.')[-1]
                def one_step(e_):
                    # a local stands for its definition (not recursively:
                    # the names inside keep their spelling)
                    for _ in range(3):
                        if isinstance(e_, ast.Name) and e_.id in p_.env:
                            e_ = p_.env[e_.id][0]
                        else:
                            break
                    return e_
                a0 = one_step(v.args[0])
                if not (isinstance(a0, (ast.ListComp, ast.GeneratorExp)) and
                        len(a0.generators) == 1 and
                        any(isinstance(c_, ast.Call) and
                            dotted(c_.func) == fn.name
                            for c_ in ast.walk(a0.elt))):
                    continue
                lst = norm(a0.generators[0].iter)
                n += 1
                r10.sites += 1
                r10.functions.add(f.fq)

                def quantified(e):
                    """('any'|'all', negated?) when e is any()/all() over a
                    comprehension on `lst` testing isinstance(item, paths)"""
                    e = one_step(e)
                    if not (isinstance(e, ast.Call) and
                            dotted(e.func) in ('any', 'all') and
                            len(e.args) == 1):
                        return None
                    c = one_step(e.args[0])
                    if not (isinstance(c, (ast.ListComp, ast.GeneratorExp))
                            and len(c.generators) == 1 and
                            norm(c.generators[0].iter) == lst and
                            not c.generators[0].ifs):
                        return None
                    t, neg = c.elt, False
                    if isinstance(t, ast.UnaryOp) and \
                            isinstance(t.op, ast.Not):
                        t, neg = t.operand, True
                    if isinstance(t, ast.Call) and \
                            dotted(t.func) == 'isinstance' and \
                            len(t.args) == 2 and \
                            norm(t.args[0]) == norm(c.generators[0].target):
                        tt = one_step(t.args[1])
                        tys = {norm(x) for x in (
                            tt.elts if isinstance(tt, ast.Tuple) else [tt])}
                        if tys and tys <= REFS:
                            return dotted(e.func), neg
                    return None
                # propositional: in every truth assignment of the atomic
                # conditions that is consistent with the path's facts, a
                # quantified test over all items says what is needed
                # (`if has_refs and not all(refs): raise` followed by
                # `if has_refs:` establishes all(refs))
                from ..cfg import prop_models

                def leaves_of(e, acc):
                    if isinstance(e, ast.BoolOp):
                        for v_ in e.values:
                            leaves_of(v_, acc)
                    elif isinstance(e, ast.UnaryOp) and \
                            isinstance(e.op, ast.Not):
                        leaves_of(e.operand, acc)
                    else:
                        acc.append(e)
                    return acc
                qleaf = {}
                rel = []
                for t0, p0 in p_.facts:
                    ls = leaves_of(t0, [])
                    hit = False
                    for l_ in ls:
                        q = quantified(l_)
                        if q is not None:
                            qleaf[norm(l_, 300)] = q
                            hit = True
                    if hit:
                        rel.append((t0, p0))
                ok = False
                pm = prop_models(rel) if rel else None
                if pm is not None and pm[1]:
                    def says(asg):
                        for k_, (fn_, neg) in qleaf.items():
                            b_ = asg.get(k_)
                            none_ref = (fn_ == 'any' and not neg and
                                        b_ is False) or \
                                (fn_ == 'all' and neg and b_ is True)
                            all_ref = (fn_ == 'all' and not neg and
                                       b_ is True) or \
                                (fn_ == 'any' and neg and b_ is False)
                            if (kind == 'VALUE_ARRAY' and none_ref) or \
                                    (kind == 'VALUE_REFARRAY' and all_ref):
                                return True
                        return False
                    ok = all(says(m_) for m_ in pm[1])
                r10.ob(ok, '%s|%s' % (f.qualname, kind))
                if not ok:
                    rep.finding(r10, f.qualname + '.<locals>.' + fn.name
                                if fn is not f.node else f.qualname,
                                norm(v, 60), 'array-kind-by-some-items',
                                OPSF, v.lineno,
                                '%s is built from %s(x) for every x of %s, '
                                'which gives VALUE.REFERENCE for paths and '
                                'VALUE for other values, but the path to it '
                                'has not established %s: a mixed list is '
                                'sent as an element the DTD does not allow'
                                % (kind.replace('_', '.'), fn.name, lst,
                                   'that no item is a reference'
                                   if kind == 'VALUE_ARRAY' else
                                   'that every item is a reference'))
    if n < 2:
        raise AnalysisError('C03.R10: the array branches of the method '
                            'parameter encoder were not found (%d)' % n)


def run(repo, rep, tier):
    r1 = rep.rule('C03.R1', 'attributes valid against the DTD')
    r2 = rep.rule('C03.R2', 'element names declared in the DTD')
    r3 = rep.rule('C03.R3', 'child lists compatible with the content model')
    r4 = rep.rule('C03.R4', 'header/body agreement')
    r5 = rep.rule('C03.R5', 'typed method parameters')
    r6 = rep.rule('C03.R6', 'unrepresentable characters fail locally')
    array_kind_decided_by_all_items(repo, rep)
    normalised_arguments_are_the_ones_sent(repo, rep, 'C03.R11')
    # ---- R1b: enumerated attribute values at the construction sites ---------
    # (the writer passes the parameter through; what the object model can
    # hand over is the value set its property setter admits, narrowed by the
    # branch conditions at the site)
    from ..valuesets import attr_values, refine
    from ..cfg import stmt_facts as _sf
    from .c01 import attr_param as _ap
    r1b = rep.rule('C03.R1b', 'enumerated attribute values passed at the '
                   'construction sites are in the DTD enumeration')
    D0 = dtdmod.load(repo)
    W0 = X.writers(repo)
    cons0 = X.constructed_elements(repo)
    allf = {}
    for m_ in repo.modules.values():
        for f_ in m_.all_funcs():
            allf[(m_.relpath, f_.qualname)] = f_
    for e_, w_ in sorted(W0.items()):
        if e_ not in D0.elements:
            continue
        for a_, info in sorted(D0.attlists.get(e_, {}).items()):
            if not isinstance(info['type'], list):
                continue
            p_ = _ap(w_, a_)
            if p_ is None:
                continue
            # boolean attributes are lower-cased strings in the writer
            boolish = set(info['type']) == {'true', 'false'}
            ps_ = [x for x in w_.init.params if x != 'self']
            for path_, fq_, line_, call_ in cons0.get(w_.cls.name, []):
                arg = None
                if p_ in ps_ and ps_.index(p_) < len(call_.args):
                    arg = call_.args[ps_.index(p_)]
                for k_ in call_.keywords:
                    if k_.arg == p_:
                        arg = k_.value
                f_ = allf.get((path_, fq_))
                if arg is None or f_ is None:
                    continue
                if isinstance(arg, ast.Name):
                    from ..valuesets import local_values
                    lv = local_values(repo, f_, arg.id)
                    if lv is None:
                        r1b.undecided.append('%s: %s@%s = %s' % (
                            fq_, e_, a_, norm(arg)))
                        continue
                    r1b.sites += 1
                    r1b.functions.add(f_.fq)
                    allowed = ({None, True, False} if boolish else
                               set(info['type']) | {None})
                    extra = sorted(str(v) for v in lv - allowed)
                    r1b.ob(not extra, '%s|%s@%s' % (fq_, e_, a_),
                           {'values': sorted(str(v) for v in lv),
                            'dtd': info['type']})
                    if extra:
                        rep.finding(r1b, fq_, '%s@%s = %s' % (
                            e_, a_, norm(arg)), 'enum-value', path_, line_,
                            '%s can be %s here, which the DTD does not '
                            'allow for %s@%s (%s)' % (
                                norm(arg), extra, e_, a_, info['type']))
                    continue
                if not (isinstance(arg, ast.Attribute) and
                        isinstance(arg.value, ast.Name) and
                        arg.value.id == 'self' and f_.cls is not None):
                    if not isinstance(arg, ast.Constant):
                        r1b.undecided.append('%s: %s@%s = %s' % (
                            fq_, e_, a_, norm(arg)))
                    continue
                vals = attr_values(repo, f_.cls, arg.attr)
                if vals is None:
                    st0 = f_.cls.find_setter(arg.attr)
                    if st0 is None:
                        r1b.undecided.append('%s: %s@%s = %s (no setter)' % (
                            fq_, e_, a_, norm(arg)))
                        continue
                    # a settable attribute whose setter admits any value
                    r1b.sites += 1
                    r1b.ob(False, '%s|%s@%s' % (fq_, e_, a_))
                    rep.finding(r1b, fq_, '%s@%s = %s' % (e_, a_, norm(arg)),
                                'unvalidated-enum', path_, line_,
                                'the setter %s stores any value, and the '
                                'value is written as %s@%s, which the DTD '
                                'restricts to %s: an object whose attribute '
                                'was set to something else is serialised '
                                'into a document that is not DTD-valid '
                                'instead of being refused'
                                % (st0.qualname, e_, a_, info['type']))
                    continue
                facts_ = ()
                for st_, (fs_, _t) in _sf(f_.node).items():
                    if isinstance(st_, (ast.If, ast.For, ast.While, ast.Try,
                                        ast.With)):
                        continue
                    if any(x is call_ for x in ast.walk(st_)):
                        facts_ = fs_
                vals = refine(vals, norm(arg), facts_)
                r1b.sites += 1
                r1b.functions.add(f_.fq)
                if boolish:
                    allowed = {None, True, False}
                else:
                    allowed = set(info['type']) | {None}
                extra = sorted(str(v) for v in vals - allowed)
                r1b.ob(not extra, '%s|%s@%s' % (fq_, e_, a_),
                       {'values': sorted(str(v) for v in vals),
                        'dtd': info['type']})
                if extra:
                    rep.finding(r1b, fq_, '%s@%s = %s' % (e_, a_, norm(arg)),
                                'enum-value', path_, line_,
                                '%s can be %s here, which the DTD does not '
                                'allow for %s@%s (%s): the document is not '
                                'DTD-valid for such an object'
                                % (norm(arg), extra, e_, a_, info['type']))
    if r1b.sites < 10:
        raise AnalysisError('C03.R1b: only %d decided sites' % r1b.sites)
    # the listener's responses: the entity delimited by Content-Length is
    # the whole document (same rule as C17.R6)
    from .c17 import content_length_rule
    content_length_rule(rep, repo.cls('pywbem/_listener.py',
                                      'ListenerRequestHandler'), 'C03.R7')
    strict_wire_encoding(repo, rep)
    from .c13 import no_memoised_parsers
    no_memoised_parsers(repo, rep, 'C03.R9', 'pywbem/_cim_obj.py')
    D = dtdmod.load(repo)
    W = X.writers(repo)
    cons = X.constructed_elements(repo)
    from .c01 import passed_params
    passed, _ = passed_params(repo, W)
    for e, w in sorted(W.items()):
        # ---- R2 ----
        r2.sites += 1
        ok = e in D.elements
        r2.ob(ok, e, {'class': w.cls.name, 'element': e})
        if not ok:
            rep.finding(r2, w.cls.name, e, 'unknown-element', X.XML,
                        w.cls.node.lineno, 'the writer class emits <%s> '
                        'which the DTD does not declare' % e)
            continue
        # ---- R1 ----
        r1.sites += 1
        r1.functions.add(w.init.fq)
        d = D.attrs(e)
        live = set(w.uncond)
        from .c01 import attr_param
        for a in w.cond:
            p = attr_param(w, a)
            if p is None or p in passed.get(w.cls.name, set()) or \
                    not cons.get(w.cls.name):
                live.add(a)
        extra = live - d
        ok = not extra
        r1.ob(ok, e + ':declared', {'element': e, 'writer': sorted(live),
                                    'dtd': sorted(d)})
        if not ok:
            rep.finding(r1, w.cls.name, '%s %s' % (e, sorted(extra)),
                        'undeclared-attribute', X.XML, w.init.node.lineno,
                        'the writer emits attribute(s) %s that the DTD does '
                        'not declare for <%s>' % (sorted(extra), e))
        miss = D.required(e) - w.uncond
        ok = not miss
        r1.ob(ok, e + ':required')
        if not ok:
            rep.finding(r1, w.cls.name, '%s %s' % (e, sorted(miss)),
                        'required-missing', X.XML, w.init.node.lineno,
                        'the DTD requires attribute(s) %s of <%s> but the '
                        'writer emits them only conditionally or never'
                        % (sorted(miss), e))
        # enumerated attribute values
        for c in walk_no_nested(w.init.node):
            if isinstance(c, ast.Call) and dotted(c.func) in (
                    'self.setAttribute', 'self.setOptionalAttribute') and \
                    len(c.args) == 2 and const_str(c.args[0]) in d:
                a = const_str(c.args[0])
                t = D.attlists[e][a]['type']
                if not isinstance(t, list):
                    continue
                v = c.args[1]
                lit = const_str(v)
                if lit is not None:
                    ok = lit in t
                elif norm(v).startswith('str(') and \
                        norm(v).endswith(').lower()'):
                    ok = set(t) >= {'true', 'false'}
                else:
                    ok = None
                if ok is None:
                    r1.undecided.append('%s@%s value %s' % (e, a, norm(v)))
                    continue
                r1.ob(ok, '%s@%s:enum' % (e, a),
                      {'element': e, 'attribute': a, 'value': norm(v),
                       'allowed': t})
                if not ok:
                    rep.finding(r1, w.cls.name, '%s@%s = %s' % (e, a,
                                                                norm(v)),
                                'enum-value', X.XML, c.lineno,
                                'value is not one of %s' % t)
        # dynamic attribute names (SCOPE): the names must be a subset of the
        # declared attributes - decided for the k.upper() idiom over the
        # object model's scope table
        for dyn in w.dynamic:
            if dyn == 'k.upper()':
                obj = repo.cls('pywbem/_cim_obj.py',
                               'CIMQualifierDeclaration')
                osc = obj.find_const('_ordered_scopes')
                names = [const_str(x).upper() for x in osc.elts] \
                    if osc is not None else []
                skips_any = any(isinstance(n, ast.Compare) and
                                isinstance(n.ops[0], (ast.Eq, ast.NotEq))
                                and 'ANY' in norm(n) and
                                isinstance(n.left, ast.Call)
                                for n in walk_no_nested(w.init.node))
                if skips_any:
                    names = [x for x in names if x != 'ANY']
                ok = bool(names) and set(names) <= d
                r1.ob(ok, e + ':dynamic', {'element': e, 'names': names})
                if not ok:
                    rep.finding(r1, w.cls.name, dyn, 'dynamic-attr', X.XML,
                                w.init.node.lineno, 'scope attribute names '
                                '%s are not all declared for <%s>'
                                % (names, e))
            else:
                r1.undecided.append('%s dynamic attribute %s' % (e, dyn))
        # ---- R3 ----
        r3.sites += 1
        model = D.elements[e]
        if D.is_empty(e):
            ok = not w.children and not w.text_children
            why = 'EMPTY element appends children'
        elif D.is_pcdata(e) and not D.children(e):
            ok = not w.children
            why = '#PCDATA element appends element children'
        else:
            ok = not w.text_children
            why = 'element-content element appends text nodes'
            nmax = _max_seq_len(model)
            nargs = len({a for _, a, _ in w.children})
            if ok and nargs > nmax:
                ok = False
                why = ('%d distinct child arguments for a content model '
                       'whose longest sequence has %d particles (%s)'
                       % (nargs, nmax, model))
        r3.ob(ok, e + ':children', {'element': e, 'model': model,
                                    'appends': w.children,
                                    'text': w.text_children})
        if not ok:
            rep.finding(r3, w.cls.name, e + ' children', 'content-model',
                        X.XML, w.init.node.lineno, why)
    # construction sites: arity
    byclass = {w.cls.name: w for w in W.values()}
    nsites = 0
    for cname, sites in sorted(cons.items()):
        w = byclass.get(cname)
        if w is None:
            continue
        params = [p for p in w.init.params if p != 'self']
        defaults = w.init.param_defaults()
        for path, fq, line, call in sites:
            nsites += 1
            r3.sites += 1
            names = set(params)
            ok = len(call.args) <= len(params) and \
                all(k.arg in names for k in call.keywords if k.arg)
            given = set(params[:len(call.args)]) | {k.arg for k in
                                                    call.keywords}
            missing = [p for p in params if p not in given and
                       p not in defaults]
            ok = ok and not missing
            r3.ob(ok, '%s|%s|%s' % (fq, cname, norm(call, 50)),
                  {'site': fq, 'constructs': cname})
            if not ok:
                rep.finding(r3, fq, norm(call, 80), 'ctor-args', path, line,
                            'arguments do not fit %s.__init__(%s)'
                            % (cname, ', '.join(params)))
    if nsites < 90:
        raise AnalysisError('only %d construction sites found' % nsites)
    _r3_sequences(repo, rep, D, W, cons, byclass)
    # ---- R4 ---------------------------------------------------------------
    conn = repo.cls(OPS, 'WBEMConnection')
    spec = {'_imethodcall': ('CIMMethod', 'IMETHODCALL', 'namespace'),
            '_methodcall': ('CIMMethod', 'METHODCALL', 'localobject'),
            '_iexportcall': ('CIMExportMethod', 'EXPMETHODCALL', None)}
    for fn, (hdr, elem, objvar) in spec.items():
        f = conn.methods.get(fn)
        if f is None:
            raise AnalysisError(fn + ' vanished')
        r4.sites += 1
        r4.functions.add(f.fq)
        hv = None
        for n in walk_no_nested(f.node):
            if isinstance(n, ast.Tuple) and len(n.elts) == 2 and \
                    const_str(n.elts[0]) == hdr:
                hv = norm(n.elts[1])
        ev = None
        for c in walk_no_nested(f.node):
            if isinstance(c, ast.Call) and dotted(c.func) == '_cim_xml.' + \
                    elem and c.args:
                ev = norm(c.args[0])
        # no reassignment of the variable between header and body
        assigns = [n for n in walk_no_nested(f.node)
                   if isinstance(n, ast.Assign) and hv and
                   any(norm(t) == hv for t in n.targets)]
        ok = hv is not None and hv == ev and not assigns
        r4.ob(ok, fn + ':method', {'function': fn, 'header': hv,
                                   'body': ev})
        if not ok:
            rep.finding(r4, f.qualname, '%s header %s vs %s(%s)'
                        % (hdr, hv, elem, ev), 'method-mismatch', OPS,
                        f.node.lineno, 'the %s header and the %s element do '
                        'not receive the same variable' % (hdr, elem))
        if objvar:
            oh = None
            for n in walk_no_nested(f.node):
                if isinstance(n, ast.Tuple) and len(n.elts) == 2 and \
                        const_str(n.elts[0]) == 'CIMObject':
                    oh = n.elts[1]
            ok = isinstance(oh, ast.Call) and \
                dotted(oh.func) == 'get_cimobject_header' and \
                norm(oh.args[0]) == objvar
            body_uses = False
            for c in walk_no_nested(f.node):
                if isinstance(c, ast.Call) and \
                        dotted(c.func) == '_cim_xml.' + elem:
                    body_uses = any(isinstance(x, ast.Name) and
                                    x.id == objvar for a in c.args[1:]
                                    for x in ast.walk(a))
            reassigned = [n for n in walk_no_nested(f.node)
                          if isinstance(n, ast.Assign) and
                          any(norm(t) == objvar for t in n.targets)]
            # assignments that build localobject before the header are fine;
            # none may lie between header construction and body
            hdr_line = oh.lineno if oh is not None else 0
            late = [n for n in reassigned if n.lineno > hdr_line]
            ok = ok and body_uses and not late
            r4.ob(ok, fn + ':object', {'function': fn, 'object': objvar})
            if not ok:
                rep.finding(r4, f.qualname, 'CIMObject header vs body',
                            'object-mismatch', OPS, f.node.lineno,
                            'the CIMObject header and the body are not '
                            'computed from the same %s' % objvar)
    # ---- R5 ---------------------------------------------------------------
    mc = conn.methods['_methodcall']
    it, pv = mc.nested.get('infer_type'), mc.nested.get('paramvalue')
    if it is None or pv is None:
        raise AnalysisError('_methodcall: infer_type/paramvalue vanished')

    def chain_types(f):
        out = set()
        for n in walk_no_nested(f.node):
            if isinstance(n, ast.Call) and dotted(n.func) == 'isinstance' \
                    and len(n.args) == 2 and norm(n.args[0]) in ('obj',):
                t = n.args[1]
                for e in (t.elts if isinstance(t, ast.Tuple) else [t]):
                    out.add(norm(e))
        return out
    a, b = chain_types(it), chain_types(pv)
    # int only appears in infer_type's error hint
    a.discard('int')
    r5.sites += 1
    ok = a == b
    r5.ob(ok, 'infer_type~paramvalue', {'infer_type': sorted(a),
                                        'paramvalue': sorted(b)})
    if not ok:
        rep.finding(r5, mc.qualname, 'infer_type vs paramvalue %s'
                    % sorted(a ^ b), 'type-chains', OPS, mc.node.lineno,
                    'infer_type() and paramvalue() do not cover the same '
                    'value types: %s gets a type without a value element or '
                    'vice versa' % sorted(a ^ b))
    pvc = [c for c in walk_no_nested(mc.node) if isinstance(c, ast.Call) and
           dotted(c.func) == '_cim_xml.PARAMVALUE']
    ok = len(pvc) == 1 and len(pvc[0].args) >= 3
    r5.ob(ok, 'PARAMVALUE:typed')
    if not ok:
        rep.finding(r5, mc.qualname, 'PARAMVALUE(...)', 'untyped', OPS,
                    mc.node.lineno, 'PARAMVALUE is built without paramtype')
    # ---- R6 ---------------------------------------------------------------
    guards = ('check_invalid_xml_chars', '_check_xml_chars',
              'validate_xml_chars')
    for fn in ENVELOPES:
        f = conn.methods[fn]
        r6.sites += 1
        r6.functions.add(f.fq)
        toxml = [c for c in walk_no_nested(f.node) if isinstance(c, ast.Call)
                 and isinstance(c.func, ast.Attribute) and
                 c.func.attr == 'toxml']
        if not toxml:
            raise AnalysisError('%s: toxml() call vanished' % fn)
        guarded = any(isinstance(c, ast.Call) and
                      (dotted(c.func) or '').split('.')[-1] in guards
                      for c in walk_no_nested(f.node))
        # or inside the element classes / _text helper
        xmlmod = repo.module(X.XML)
        inner = any(isinstance(c, ast.Call) and
                    (dotted(c.func) or '').split('.')[-1] in guards
                    for ff in xmlmod.all_funcs()
                    for c in walk_no_nested(ff.node))
        ok = guarded or inner
        r6.ob(ok, fn + ':xml-char-guard')
        if not ok:
            rep.finding(r6, f.qualname, 'req_xml.toxml()', 'no-char-guard',
                        OPS, toxml[0].lineno,
                        'nothing on the send path rejects characters that '
                        'XML 1.0 cannot represent (U+0000-U+0008, U+000B, '
                        'U+000C, U+000E-U+001F, lone surrogates, U+FFFE/'
                        'U+FFFF): such a string argument is sent as an '
                        'ill-formed document instead of failing locally')


def _max_seq_len(model):
    """length of the longest child sequence a content model allows, counting
    a repeated particle once (upper bound for the number of child-appending
    statements of a writer)"""
    m = model.strip()
    while m and m[-1] in '*+?':
        m = m[:-1].strip()
    if m.startswith('(') and _matching(m) == len(m) - 1:
        m = m[1:-1].strip()
    else:
        return 1
    # split at top level
    depth = 0
    seps = set()
    parts, cur = [], ''
    for ch in m:
        if ch == '(':
            depth += 1
        elif ch == ')':
            depth -= 1
        if ch in ',|' and depth == 0:
            seps.add(ch)
            parts.append(cur)
            cur = ''
        else:
            cur += ch
    parts.append(cur)
    lens = [_max_seq_len(p) for p in parts if p.strip()]
    if '|' in seps:
        return max(lens)
    return sum(lens)


def _matching(m):
    depth = 0
    for i, ch in enumerate(m):
        if ch == '(':
            depth += 1
        elif ch == ')':
            depth -= 1
            if depth == 0:
                return i
    return -1


def _top_particles(model):
    """top-level comma-separated particles of a content model"""
    m = model.strip()
    if m.startswith('(') and m.endswith((')', ')*', ')+', ')?')):
        inner = m[1:m.rindex(')')]
    else:
        inner = m
    depth = 0
    parts, cur = [], ''
    for ch in inner:
        if ch == '(':
            depth += 1
        elif ch == ')':
            depth -= 1
        if ch == ',' and depth == 0:
            parts.append(cur)
            cur = ''
        else:
            cur += ch
    parts.append(cur)
    return [p.strip() for p in parts if p.strip()]


def _r3_sequences(repo, rep, D, W, cons, byclass):
    """R3b: the child sequence each construction site can produce is in the
    language of the DTD content model (order, multiplicity); R3c: a list
    passed for a NAME+ model is non-empty by construction."""
    from .. import xmlseq as Q
    r3b = rep.rule('C03.R3b', 'child sequences of construction sites are in '
                   'the content model (order and multiplicity)')
    r3c = rep.rule('C03.R3c', 'lists for NAME+ content models are non-empty '
                   'by construction; sibling constructions agree')
    es = Q.ElemSets(repo, byclass)
    from ..attrstate import verified_nonnull
    es.nonnull = verified_nonnull(repo)
    r3b.notes.append('attributes verified never None: %s'
                     % sorted(es.nonnull))
    orders = {}
    for cname, w in byclass.items():
        orders[cname] = Q.writer_order(w)
    funcs = {}
    for m in repo.modules.values():
        for f in m.all_funcs():
            funcs[(m.relpath, f.qualname)] = f
    decided = 0
    plus_sites = {}
    for cname, sites in sorted(cons.items()):
        w = byclass.get(cname)
        if w is None:
            continue
        e = w.element
        if e not in D.elements:
            continue
        rx_ = Q.model_regex(D, e)
        order = orders[cname]
        params = [p for p in w.init.params if p != 'self']
        plus = Q.min_one_params(D, e)
        for path, fq, line, call in sites:
            f = funcs.get((path, fq))
            if f is None:
                continue
            argmap = {}
            for i, a in enumerate(call.args):
                if i < len(params):
                    argmap[params[i]] = a
            for k in call.keywords:
                if k.arg:
                    argmap[k.arg] = k.value
            # ---- R3c ----
            if plus is not None and order and len(order) == 1:
                a = argmap.get(order[0][0])
                r3c.sites += 1
                verdict = Q.nonempty_by_construction(a, f) \
                    if a is not None else 'no'
                plus_sites.setdefault(e, []).append((path, fq, a, call))
                r3c.ob(verdict != 'no', '%s|%s|%s' % (fq, e, norm(call, 60)),
                       {'site': fq, 'element': e, 'model': D.elements[e],
                        'list': norm(a, 80) if a is not None else None,
                        'nonempty': verdict})
                if verdict == 'no':
                    rep.finding(r3c, fq, norm(call, 90), 'may-be-empty', path,
                                line, '<%s> requires at least one <%s> child '
                                '(%s) but the list %s can be empty (filtered '
                                'comprehension / empty literal): the request '
                                'is not DTD-valid for such input'
                                % (e, plus, D.elements[e],
                                   norm(a, 80) if a is not None else
                                   '(missing)'))
                elif verdict == 'unknown':
                    r3c.undecided.append('%s: %s' % (fq, norm(a, 60)))
            # ---- R3b ----
            if rx_ is None or order is None:
                continue
            r3b.sites += 1
            groups = []
            unknown = None
            correlated = False
            for pname, mult in order:
                a = argmap.get(pname)
                if a is None:
                    dflt = w.init.param_defaults().get(pname)
                    if dflt is None:
                        unknown = pname
                        break
                    a = dflt
                es.state_dependent = False
                s_ = es.elems(a, f, {}, use=call)
                if s_ is None:
                    unknown = pname
                    break
                ne = mult == 'many' and \
                    Q.nonempty_by_construction(a, f) == 'yes'
                if es.state_dependent and mult != 'many':
                    correlated = True
                groups.append((s_, mult, ne))
            if unknown is not None:
                r3b.undecided.append('%s: %s(%s=...) element kind not '
                                     'evident' % (fq, cname, unknown))
                continue
            seqs = Q.sequences(groups)
            if seqs is None:
                r3b.undecided.append('%s: %s too many combinations'
                                     % (fq, cname))
                continue
            decided += 1
            badseq = [q for q in seqs
                      if not rx_.fullmatch(''.join(x + ',' for x in q))]
            if badseq and correlated and len(badseq) < len(seqs):
                # the alternatives of a single child depend on the state of
                # the receiver, which the enclosing conditions test: not
                # decidable without path sensitivity
                r3b.undecided.append(
                    '%s: %s child kind depends on receiver state (%d of %d '
                    'combinations fit)' % (fq, cname, len(seqs) - len(badseq),
                                           len(seqs)))
                continue
            r3b.ob(not badseq, '%s|%s|%s' % (fq, cname, norm(call, 50)),
                   {'site': fq, 'element': e, 'model': D.elements[e],
                    'child_groups': [(p_, m_, sorted(g_[0])) for (p_, m_), g_
                                     in zip(order, groups)],
                    'sequences_checked': len(seqs)})
            if badseq:
                rep.finding(r3b, fq, norm(call, 90), 'child-sequence', path,
                            line, '<%s> children can be %s which the content '
                            'model %s does not allow (constructor appends %s '
                            'in this order)'
                            % (e, list(badseq[0]), D.elements[e],
                               [p_ for p_, _ in order]))
    if decided < 25:
        raise AnalysisError('only %d construction sites with evident child '
                            'kinds (C03.R3b would be vacuous)' % decided)
    # sibling agreement of the NAME+ constructions (one idiom, several copies)
    for e, sites in plus_sites.items():
        forms = {}
        for path, fq, a, call in sites:
            if isinstance(a, ast.ListComp):
                g = a.generators[0]
                src = g.iter
                shape = (norm(a.elt), bool(g.ifs),
                         norm(src.func.attr) if isinstance(src, ast.Call) and
                         isinstance(src.func, ast.Attribute) else norm(src),
                         tuple(norm(x) for x in src.args)
                         if isinstance(src, ast.Call) else ())
                forms.setdefault(shape, []).append((path, fq, call))
        if len(forms) > 1:
            major = max(forms.values(), key=len)
            for shape, ss in forms.items():
                if ss is major:
                    continue
                for path, fq, call in ss:
                    rep.finding(r3c, fq, norm(call, 90), 'sibling-differs',
                                path, call.lineno,
                                'the <%s> child list is built differently '
                                'here (%s) than at the %d sibling site(s): '
                                'the same namespace would be serialised '
                                'differently' % (e, shape, len(major)))
        r3c.ob(len(forms) <= 1, e + ':siblings',
               {'element': e, 'sites': len(sites), 'forms': len(forms)})


def strict_wire_encoding(repo, rep):
    """C03.R8: text becomes bytes for the wire by *strict* UTF-8 encoding.
    A str can hold lone surrogates, which have no UTF-8 encoding; the strict
    encoder raises UnicodeEncodeError, so the operation fails locally.  Any
    other error handler emits something instead: `xmlcharrefreplace` a
    character reference to a code point XML 1.0 forbids (the document is not
    well-formed), `surrogatepass` bytes that are not UTF-8, `replace` /
    `ignore` another text than the caller's."""
    r8 = rep.rule('C03.R8', 'request / response text is encoded to bytes '
                  'with the strict error handler')
    FILES = ('pywbem/_cim_http.py', 'pywbem/_utils.py', 'pywbem/_listener.py',
             'pywbem/_cim_operations.py', 'pywbem/_cim_xml.py')
    for rel in FILES:
        m = repo.module(rel)
        for f in m.all_funcs():
            for c in walk_no_nested(f.node):
                if not (isinstance(c, ast.Call) and
                        isinstance(c.func, ast.Attribute) and
                        c.func.attr == 'encode'):
                    continue
                r8.sites += 1
                r8.functions.add(f.fq)
                err = c.args[1] if len(c.args) > 1 else None
                for k in c.keywords:
                    if k.arg == 'errors':
                        err = k.value
                ok = err is None or const_str(err) == 'strict'
                r8.ob(ok, '%s|%s' % (f.qualname, norm(c, 60)))
                if not ok:
                    rep.finding(r8, f.qualname, norm(c, 70),
                                'lenient-encoding', rel, c.lineno,
                                'the text is encoded with the error handler '
                                '%s: a lone surrogate in a string argument '
                                'is sent (as an invalid character reference '
                                '/ invalid UTF-8 / altered text) instead of '
                                'failing locally with UnicodeEncodeError'
                                % norm(err))
    if r8.sites < 3:
        raise AnalysisError('C03.R8: only %d encode() calls on the wire '
                            'path' % r8.sites)


def normalised_arguments_are_the_ones_sent(repo, rep, rid):
    """C03.R11 / C04.R18: the _iparam_*() helpers of WBEMConnection check
    an operation argument AND return what is to be sent for it (a str class
    name becomes a CIMClassName, host and namespace are stripped from a
    path so that it is encoded as CLASSNAME / INSTANCENAME).  A call whose
    result is thrown away still validates, but the raw argument goes to
    _imethodcall(): a CIMClassName with namespace is then sent as
    LOCALCLASSPATH below IPARAMVALUE, which the DTD does not allow there.
    So no call of a value-returning _iparam_*() helper is a bare
    expression statement."""
    r = rep.rule(rid, 'the result of an _iparam_*() normaliser is used, '
                 'never dropped')
    conn = repo.cls('pywbem/_cim_operations.py', 'WBEMConnection')
    helpers = {}
    for n, f in list(conn.methods.items()) + \
            list(repo.module('pywbem/_cim_operations.py').functions.items()):
        if n.startswith('_iparam_'):
            helpers[n] = any(isinstance(x, ast.Return) and
                             x.value is not None and
                             not (isinstance(x.value, ast.Constant) and
                                  x.value.value is None)
                             for x in walk_no_nested(f.node))
    if len(helpers) < 6:
        raise AnalysisError('%s: only %d _iparam_* helpers found'
                            % (rid, len(helpers)))
    ncalls = 0
    for f in conn.methods.values():
        for st in walk_no_nested(f.node):
            calls = []
            if isinstance(st, ast.Expr) and isinstance(st.value, ast.Call):
                calls = [(st.value, True)]
            elif isinstance(st, ast.Call):
                calls = [(st, False)]
            for c, bare in calls:
                d = dotted(c.func) or ''
                nm = d.split('.')[-1]
                if not helpers.get(nm):
                    continue
                if bare:
                    rep.finding(r, f.qualname, norm(c, 70), 'result-dropped',
                                'pywbem/_cim_operations.py', c.lineno,
                                'the value %s() returns for the argument is '
                                'dropped: the argument is checked, but sent '
                                'as the caller gave it (e.g. a class path '
                                'with namespace as LOCALCLASSPATH where only '
                                'CLASSNAME is allowed)' % nm)
                    r.ob(False, '%s|%s' % (f.qualname, norm(c, 60)))
                else:
                    ncalls += 1
    r.sites += ncalls
    r.ob(ncalls >= 100, 'normaliser-calls', {'calls': ncalls})
    if ncalls < 100:
        raise AnalysisError('%s: only %d _iparam_*() calls found'
                            % (rid, ncalls))
