"""C13 - association traversal consistent with stored association instances.
Thin: Names and full operations share the selection; filters are compared
case-insensitively; class filters include subclasses."""
import ast

from ..model import AnalysisError, walk_no_nested, dotted, norm, const_str
from .. import names
from ..ops import OPS

EXPLANATION = (
    "Thin structural check (stated as such): (R1) ReferenceNames/References "
    "and AssociatorNames/Associators of the mock MainProvider call the same "
    "selection helper with the same arguments on the instance-level and on "
    "the class-level branch, so the Names result is the set of paths of the "
    "full result by construction; the server-side Open* variants call the "
    "corresponding traditional operation passing every common parameter by "
    "name; (R2) the name-comparison discipline of C12.R1/R2 applied to the "
    "association code (Role, ResultRole, AssocClass, ResultClass, "
    "reference_class); (R3) in all four selection helpers both class "
    "filters are expanded through _subclasses_lc before matching and the "
    "raw filter is used only for truthiness; _subclasses_lc is the deep "
    "closure plus the class, lower-cased. Does not decide agreement with "
    "the stored association instances, symmetry or monotonicity "
    "(graph-valued behaviour).")
ASSUMPTIONS = [
    "the selection helpers are deterministic functions of repository state "
    "and their arguments",
]

MAIN = 'pywbem_mock/_mainprovider.py'
PAIRS = (('ReferenceNames', 'References'),
         ('AssociatorNames', 'Associators'))
HELPERS = ('_get_reference_instnames', '_get_reference_classnames',
           '_get_associated_instancenames', '_get_associated_classnames')
OPEN_TO_TRAD = {
    'OpenReferenceInstancePaths': 'ReferenceNames',
    'OpenReferenceInstances': 'References',
    'OpenAssociatorInstancePaths': 'AssociatorNames',
    'OpenAssociatorInstances': 'Associators',
    'OpenEnumerateInstancePaths': 'EnumerateInstanceNames',
    'OpenEnumerateInstances': 'EnumerateInstances',
}


def helper_calls(func):
    out = {}
    for n in walk_no_nested(func.node):
        if isinstance(n, ast.Call):
            d = dotted(n.func)
            if d and d.startswith('self.') and d[5:] in HELPERS:
                out.setdefault(d[5:], []).append(n)
    return out


def run(repo, rep, tier):
    from .c12 import namespace_validated_first
    namespace_validated_first(repo, rep, 'C13.R8', lambda n: 'Associator' in n or 'Reference' in n)
    r1 = rep.rule('C13.R1', 'Names and full operations share the selection')
    r2 = rep.rule('C13.R2', 'association filters compared '
                  'case-insensitively')
    r2b = rep.rule('C13.R2b', 'no uncalled string method in a comparison')
    r3 = rep.rule('C13.R3', 'class filters include subclasses')
    shadow_copy_rule(repo, rep)
    no_memoised_repository_reads(repo, rep)
    adapters_forward_every_filter(repo, rep)
    results_are_stamped_on_copies(repo, rep)
    # the Open/Pull variants can be continued: each Open registers its
    # context under the pull kind DSP0200 pairs it with
    shadow_writes_follow_all_checks(repo, rep)
    null_references_reference_nothing(repo, rep)
    from .c10 import store_writes_keyed_by_object
    store_writes_keyed_by_object(repo, rep, rep.rule(
        'C13.R14', 'every stored copy of an association instance carries '
        'the path it is stored under'),
        files=['pywbem_mock/_instancewriteprovider.py'], floor=3)
    from .c14 import pull_kinds_rule
    pull_kinds_rule(repo, rep, rep.rule(
        'C13.R12', 'an Open...() result can be continued by its Pull '
        'operation (pull kinds map 1:1)'),
        repo.cls('pywbem_mock/_mainprovider.py', 'MainProvider'))
    from .c11 import write_loops_are_duplicate_free
    write_loops_are_duplicate_free(repo, rep, 'C13.R11')
    adapter_keys_agree(repo, rep, 'C13.R10', lambda op: 'Associator' in op or 'Reference' in op, 30)
    mp = repo.cls(MAIN, 'MainProvider')

    # the traversal functions and the MainProvider helpers they call (the
    # subclass closure that the AssocClass / ResultClass filters rest on)
    reach = set(names.ASSOC_FUNCS)
    todo = [n for n in names.ASSOC_FUNCS if n in mp.methods]
    while todo:
        n = todo.pop()
        for x in ast.walk(mp.methods[n].node):
            if isinstance(x, ast.Attribute) and \
                    isinstance(x.value, ast.Name) and x.value.id == 'self' \
                    and x.attr in mp.methods and x.attr not in reach and \
                    x.attr.startswith('_'):
                reach.add(x.attr)
                todo.append(x.attr)

    def scope(f):
        root = f
        while root.parent is not None:
            root = root.parent
        return f.file == MAIN and root.name in reach
    names.run_name_rules(repo, rep, r2, r2b, scope)

    for nm, full in PAIRS:
        a, b = mp.methods.get(nm), mp.methods.get(full)
        if a is None or b is None:
            raise AnalysisError('MainProvider.%s/%s vanished' % (nm, full))
        r1.sites += 1
        r1.functions.update([a.fq, b.fq])
        ca, cb = helper_calls(a), helper_calls(b)
        ok = set(ca) == set(cb) and len(ca) == 2
        r1.ob(ok, '%s~%s:helpers' % (nm, full),
              {'names_op': sorted(ca), 'full_op': sorted(cb)})
        if not ok:
            rep.finding(r1, '%s/%s' % (a.qualname, b.qualname),
                        'selection helpers', 'helpers-differ', MAIN,
                        a.node.lineno, '%s uses %s but %s uses %s'
                        % (nm, sorted(ca), full, sorted(cb)))
            continue
        for h in ca:
            ta = [[norm(x) for x in c.args] for c in ca[h]]
            tb = [[norm(x) for x in c.args] for c in cb[h]]
            ok = ta == tb and len(ta) == 1
            r1.ob(ok, '%s~%s:%s' % (nm, full, h),
                  {'helper': h, 'names_args': ta, 'full_args': tb})
            if not ok:
                rep.finding(r1, '%s/%s' % (a.qualname, b.qualname),
                            '%s(%s) vs (%s)' % (h, ', '.join(ta[0]) if ta
                                                else '', ', '.join(tb[0])
                                                if tb else ''),
                            'args-differ', MAIN, ca[h][0].lineno,
                            '%s and %s call %s with different arguments: '
                            'the Names result is no longer the set of paths '
                            'of the full result' % (nm, full, h))
            # the filters passed are the operation's own parameters
            for c in ca[h] + cb[h]:
                for x in c.args[2:]:
                    ok = isinstance(x, ast.Name) and x.id in (
                        'ResultClass', 'Role', 'AssocClass', 'ResultRole')
                    r1.ob(ok, '%s:%s:%s' % (nm, h, norm(x)))
                    if not ok:
                        rep.finding(r1, a.qualname, norm(c, 100),
                                    'filter-arg', MAIN, c.lineno,
                                    'a filter argument is not the '
                                    'operation parameter itself')
        # instance-level helper under isinstance(ObjectName,
        # CIMInstanceName), class-level after it
        from ..cfg import stmt_facts as _sf13
        for f in (a, b):
            # the instance-level helper runs under isinstance(ObjectName,
            # CIMInstanceName), the class-level helper under its negation
            # (whatever the branch layout)
            inst_ok = True
            seen_inst = False
            for st_, (fs_, _t) in _sf13(f.node).items():
                if isinstance(st_, (ast.If, ast.For, ast.While, ast.Try,
                                    ast.With)):
                    continue
                known = None
                for t_, pol_ in fs_:
                    if norm(t_) == 'isinstance(ObjectName, CIMInstanceName)':
                        known = pol_
                for c_ in ast.walk(st_):
                    if not isinstance(c_, ast.Call):
                        continue
                    d_ = dotted(c_.func) or ''
                    if not d_.startswith('self._get_'):
                        continue
                    if d_.endswith('instnames') or \
                            d_.endswith('instancenames'):
                        seen_inst = True
                        if known is not True:
                            inst_ok = False
                    elif d_.endswith('classnames'):
                        if known is not False:
                            inst_ok = False
            inst_ok = inst_ok and seen_inst
            r1.ob(inst_ok, f.name + ':level-dispatch')
            if not inst_ok:
                rep.finding(r1, f.qualname, 'isinstance(ObjectName, '
                            'CIMInstanceName)', 'level-dispatch', MAIN,
                            f.node.lineno, 'instance-level requests are not '
                            'routed to the instance-level helper')
    # Open* -> traditional
    for on, tn in sorted(OPEN_TO_TRAD.items()):
        of, tf = mp.methods.get(on), mp.methods.get(tn)
        if of is None or tf is None:
            raise AnalysisError('MainProvider.%s/%s vanished' % (on, tn))
        r1.sites += 1
        r1.functions.add(of.fq)
        from ..inline import Flat as _Flat
        off = _Flat(of, keep=(tn,), aliases=True)
        calls = [n for n in walk_no_nested(off.node)
                 if isinstance(n, ast.Call) and dotted(n.func) == 'self.' + tn]
        ok = len(calls) == 1
        r1.ob(ok, on + '->' + tn)
        if not ok:
            rep.finding(r1, of.qualname, 'self.%s(...)' % tn, 'open-trad',
                        MAIN, of.node.lineno, '%s does not obtain its result '
                        'from %s' % (on, tn))
            continue
        c = calls[0]
        tparams = [p for p in tf.params if p != 'self']
        from ..model import call_arguments
        passed, _rest = call_arguments(off.node, c, tparams)
        for p in tparams:
            if p in of.params:
                x = passed.get(p)
                ok = isinstance(x, ast.Name) and x.id == p
                r1.ob(ok, '%s:%s' % (on, p))
                if not ok:
                    rep.finding(r1, of.qualname, '%s(%s=%s)'
                                % (tn, p, norm(x)), 'param-not-passed', MAIN,
                                c.lineno, '%s does not pass its %s to %s'
                                % (on, p, tn))

    # ---- R3 ---------------------------------------------------------------
    for h in HELPERS:
        f = mp.methods.get(h)
        if f is None:
            raise AnalysisError('MainProvider.%s vanished' % h)
        r3.sites += 1
        r3.functions.add(f.fq)
        for p in ('result_class', 'assoc_class'):
            if p not in f.params:
                continue
            exp = None
            for n in walk_no_nested(f.node):
                if isinstance(n, ast.Assign) and \
                        isinstance(n.value, ast.Call) and \
                        dotted(n.value.func) == 'self._subclasses_lc' and \
                        n.value.args and norm(n.value.args[0]) == p and \
                        isinstance(n.targets[0], ast.Name):
                    exp = n.targets[0].id
            # delegated to another helper as its class filter counts too
            delegated = any(
                isinstance(n, ast.Call) and dotted(n.func) and
                dotted(n.func)[5:] in HELPERS and
                any(norm(a) == p for a in n.args)
                for n in walk_no_nested(f.node))
            ok = exp is not None or delegated
            r3.ob(ok, '%s:%s:expanded' % (h, p),
                  {'helper': h, 'filter': p, 'expanded_into': exp,
                   'delegated': delegated})
            if not ok:
                rep.finding(r3, f.qualname, p, 'not-expanded', MAIN,
                            f.node.lineno, 'class filter %s is not expanded '
                            'to its subclasses via _subclasses_lc' % p)
            # raw filter used only for truthiness / validation / expansion
            for n in walk_no_nested(f.node):
                if isinstance(n, ast.Compare) and any(
                        isinstance(x, ast.Name) and x.id == p
                        for x in [n.left] + n.comparators):
                    r3.ob(False, '%s:%s:raw-compare' % (h, p))
                    rep.finding(r3, f.qualname, norm(n), 'raw-filter', MAIN,
                                n.lineno, 'the class filter %s itself is '
                                'compared (subclasses are not included)' % p)
            if exp is not None:
                used = any(
                    (isinstance(n, ast.Compare) and
                     isinstance(n.ops[0], (ast.In, ast.NotIn)) and
                     norm(n.comparators[0]) == exp) or
                    (isinstance(n, ast.Call) and
                     any(norm(a) == exp for a in n.args))
                    for n in walk_no_nested(f.node))
                r3.ob(used, '%s:%s:used' % (h, p))
                if not used:
                    rep.finding(r3, f.qualname, exp, 'expansion-unused',
                                MAIN, f.node.lineno, 'the expanded class '
                                'list %s is never used for matching' % exp)
    slc = mp.methods.get('_subclasses_lc')
    if slc is None:
        raise AnalysisError('_subclasses_lc vanished')
    r3.functions.add(slc.fq)
    deep = [n for n in walk_no_nested(slc.node) if isinstance(n, ast.Call)
            and dotted(n.func) == 'self._get_subclass_names']
    ok = len(deep) == 1 and len(deep[0].args) == 3 and \
        norm(deep[0].args[0]) == slc.params[1] and \
        norm(deep[0].args[2]) == 'True'
    incl = any(isinstance(n, ast.Assign) and isinstance(n.value, ast.List)
               and [norm(e) for e in n.value.elts] == [slc.params[1]]
               for n in walk_no_nested(slc.node))
    lowered = any(isinstance(n, ast.Return) and
                  isinstance(n.value, ast.ListComp) and
                  isinstance(n.value.elt, ast.Call) and
                  isinstance(n.value.elt.func, ast.Attribute) and
                  n.value.elt.func.attr in ('lower', 'casefold')
                  for n in walk_no_nested(slc.node))
    r3.ob(ok and incl and lowered, '_subclasses_lc',
          {'deep': ok, 'includes_class': incl, 'lower_cased': lowered})
    if not (ok and incl and lowered):
        rep.finding(r3, slc.qualname, 'closure', 'subclasses-lc', MAIN,
                    slc.node.lineno, '_subclasses_lc is not the lower-cased '
                    'deep subclass closure including the class itself')

    _filter_rules(repo, rep, mp)


FILTER_NAMES = {'role', 'result_role', 'result_class', 'result_classes',
                'resultclasses', 'resultclass_names', 'assoc_class',
                'assoc_classes'}
# which end of the association a filter constrains
SOURCE_END = {'role', 'assoc_class', 'assoc_classes'}
RESULT_END = {'result_role', 'result_class', 'result_classes'}


FAMILIES = [{'role'}, {'result_role'},
            {'result_class', 'result_classes', 'resultclasses',
             'resultclass_names'},
            {'assoc_class', 'assoc_classes'}]
MATCH_HELPERS = ('self._ref_prop_matches', 'self._assoc_prop_matches')


def _family(name):
    for fam in FAMILIES:
        if name in fam:
            return fam
    return {name}


def _names_in(e):
    """names used in e, not counting arguments handed to the two match
    helpers (which are judged on their own)"""
    skip = set()
    for c in ast.walk(e):
        if isinstance(c, ast.Call) and dotted(c.func) in MATCH_HELPERS:
            for a in c.args:
                skip.update(id(x) for x in ast.walk(a))
    return {x.id for x in ast.walk(e) if isinstance(x, ast.Name)
            and id(x) not in skip}


def _only_removes(stmts):
    """the statements only drop the candidate (continue / return False),
    possibly under further tests, or validate the filter value"""
    for st in stmts:
        if isinstance(st, ast.Continue):
            continue
        if isinstance(st, ast.Return) and isinstance(st.value, ast.Constant) \
                and st.value.value is False:
            continue
        if isinstance(st, ast.If) and not st.orelse and \
                _only_removes(st.body):
            continue
        if isinstance(st, ast.Expr) and isinstance(st.value, ast.Call) and \
                (dotted(st.value.func) or '').startswith('self._validate_'):
            continue
        return False
    return True


def _requires_truthy(test, name):
    """`name and ...` / `name`: the test is false whenever name is None"""
    if isinstance(test, ast.Name):
        return test.id == name
    if isinstance(test, ast.BoolOp) and isinstance(test.op, ast.And):
        return any(_requires_truthy(v, name) for v in test.values)
    return False


def _filter_rules(repo, rep, mp):
    from ..cfg import stmt_facts
    r4 = rep.rule('C13.R4', 'filters only remove candidates, None means no '
                  'filter, and each filter is applied to its own end of the '
                  'association')
    funcs = ['_ref_prop_matches', '_assoc_prop_matches',
             '_get_reference_classnames', '_get_reference_instnames',
             '_get_associated_classnames', '_get_associated_instancenames']
    ntests = _filter_monotone(rep, r4, mp, funcs)
    if ntests < 12:
        raise AnalysisError('only %d association filter uses found'
                            % ntests)
    # end placement at instance level
    from ..inline import Flat
    from ..cfg import GuardWalker
    ai = Flat(mp.methods['_get_associated_instancenames'],
              keep=tuple(funcs))
    facts = stmt_facts(ai.node)
    srcp = ai.params[2] if ai.params[0] == 'self' else ai.params[1]
    src_test = 'prop.value == %s' % srcp

    def has(fs, text, pol):
        # (a != b, False) is (a == b, True); conjuncts count on their own
        for t0, p0 in fs:
            for t, p_ in GuardWalker._atoms(t0, p0):
                s_ = norm(t)
                if s_ == text and p_ == pol:
                    return True
                if isinstance(t, ast.Compare) and len(t.ops) == 1 and \
                        isinstance(t.ops[0], (ast.NotEq, ast.Eq)):
                    flip = '%s %s %s' % (
                        norm(t.left),
                        '==' if isinstance(t.ops[0], ast.NotEq) else '!=',
                        norm(t.comparators[0]))
                    if flip == text and p_ == (not pol):
                        return True
        return False
    adds = [st for st in facts if isinstance(st, ast.Expr) and
            isinstance(st.value, ast.Call) and
            norm(st.value.func).endswith('.add')]
    r4.sites += 1
    ok = len(adds) == 1 and has(facts[adds[0]][0], src_test, False) and \
        has(facts[adds[0]][0], "prop.type == 'reference'", True) and \
        norm(adds[0].value.args[0]) == 'prop.value'
    r4.ob(ok, '_get_associated_instancenames|add',
          {'add': [norm(a) for a in adds],
           'facts': [(norm(t, 40), p) for t, p in
                     (facts[adds[0]][0] if adds else ())]})
    if not ok:
        rep.finding(r4, ai.qualname, 'rtn_instpaths.add', 'other-end', MAIN,
                    adds[0].lineno if adds else ai.node.lineno,
                    'an associated instance must be the value of a '
                    'reference property of the association instance other '
                    'than the one that points at the source instance')
    for st in facts:
        if not isinstance(st, ast.If) or st.test is None:
            continue
        used = _names_in(st.test) & (SOURCE_END | RESULT_END)
        if not used or norm(st.test) in (src_test,):
            continue
        fs = facts[st][0]
        if not has(fs, "prop.type == 'reference'", True):
            continue
        r4.sites += 1
        want_src = bool(used & SOURCE_END)
        ok = has(fs, src_test, want_src) and not (used & SOURCE_END and
                                                  used & RESULT_END)
        r4.ob(ok, '_get_associated_instancenames|end|' + norm(st.test, 50),
              {'test': norm(st.test, 80),
               'applies_to': 'source end' if want_src else 'result end'})
        if not ok:
            rep.finding(r4, ai.qualname, norm(st.test, 60), 'wrong-end',
                        MAIN, st.lineno,
                        'filter %s is applied to the wrong end of the '
                        'association (Role/AssocClass constrain the '
                        'reference to the source, ResultRole/ResultClass '
                        'the other reference)' % ', '.join(sorted(used)))
    ri = Flat(mp.methods['_get_reference_instnames'],
              keep=tuple(funcs))
    facts = stmt_facts(ri.node)
    srcp = ri.params[2] if ri.params[0] == 'self' else ri.params[1]
    adds = [st for st in facts if isinstance(st, ast.Expr) and
            isinstance(st.value, ast.Call) and
            norm(st.value.func).endswith('.add')]
    r4.sites += 1
    ok = len(adds) == 1 and has(facts[adds[0]][0],
                                'prop.value == %s' % srcp, True) and \
        has(facts[adds[0]][0], "prop.type == 'reference'", True) and \
        norm(adds[0].value.args[0]) == 'inst.path'
    r4.ob(ok, '_get_reference_instnames|add',
          {'add': [norm(a) for a in adds]})
    if not ok:
        rep.finding(r4, ri.qualname, 'rtn_instpaths.add', 'reference', MAIN,
                    adds[0].lineno if adds else ri.node.lineno,
                    'a referencing instance is one with a reference '
                    'property whose value is the source instance; its own '
                    'path is returned')


def shadow_copy_rule(repo, rep):
    """C13.R5: a cross-namespace association instance is stored once per
    participating namespace.  The set of those namespaces must be computed
    from the very object that is then written / deleted: computing it from
    another object (e.g. the partial ModifiedInstance instead of the merged
    instance) updates only some of the copies and traversal from the two
    namespaces disagrees."""
    IWP = 'pywbem_mock/_instancewriteprovider.py'
    cls = repo.cls(IWP, 'InstanceWriteProvider')
    r5 = rep.rule('C13.R5', 'the namespaces of the shadow copies are computed '
                  'from the object that is written')
    finder = 'find_multins_association_ref_namespaces'
    if finder not in cls.methods:
        raise AnalysisError('InstanceWriteProvider.%s vanished' % finder)
    for f in cls.methods.values():
        for st in walk_no_nested(f.node):
            if not (isinstance(st, ast.Assign) and
                    isinstance(st.value, ast.Call) and
                    (dotted(st.value.func) or '') == 'self.' + finder and
                    st.value.args and
                    isinstance(st.targets[0], ast.Name)):
                continue
            r5.sites += 1
            r5.functions.add(f.fq)
            x = norm(st.value.args[0])
            v = st.targets[0].id
            acted = set()
            ifs = [n for n in walk_no_nested(f.node) if isinstance(n, ast.If)
                   and any(isinstance(t, ast.Name) and t.id == v
                           for t in ast.walk(n.test))]
            for n in ifs:
                for c in [c for b in n.body + n.orelse for c in ast.walk(b)]:
                    if not isinstance(c, ast.Call):
                        continue
                    d = dotted(c.func) or ''
                    if d.startswith('self.') and \
                            'multi_namespace_instance' in d and c.args:
                        acted.add(norm(c.args[0]))
                    elif isinstance(c.func, ast.Attribute) and \
                            c.func.attr == 'copy' and not c.args:
                        acted.add(norm(c.func.value))
                    elif isinstance(c.func, ast.Attribute) and \
                            c.func.attr in ('update', 'create', 'delete') \
                            and norm(c.func.value).endswith('_store') and \
                            c.args:
                        acted.add(norm(c.args[-1]))
            derived = {x}
            for _ in range(3):
                for a in walk_no_nested(f.node):
                    if isinstance(a, ast.Assign) and \
                            isinstance(a.targets[0], ast.Name) and \
                            isinstance(a.value, ast.Call) and (
                                (isinstance(a.value.func, ast.Attribute) and
                                 a.value.func.attr == 'copy' and
                                 norm(a.value.func.value) in derived) or
                                ((dotted(a.value.func) or '').split('.')[-1]
                                 in ('copy', 'deepcopy') and a.value.args and
                                 norm(a.value.args[0]) in derived)):
                        derived.add(a.targets[0].id)
            ok = bool(acted) and acted <= derived
            r5.ob(ok, '%s|%s' % (f.qualname, norm(st, 70)),
                  {'namespaces_from': x, 'objects_written': sorted(acted)})
            if not ok:
                rep.finding(r5, f.qualname, norm(st.value, 80),
                            'decision-object-differs', IWP, st.lineno,
                            'the namespaces holding copies of the '
                            'association instance are computed from %s but '
                            'the object written / deleted is %s: with a '
                            'partial ModifiedInstance (or PropertyList) that '
                            'omits the cross-namespace reference only the '
                            'local copy is updated and the shadow copy in '
                            'the other namespace keeps the old reference'
                            % (x, sorted(acted) or '(not recognised)'))
    if r5.sites < 3:
        raise AnalysisError('only %d uses of %s' % (r5.sites, finder))


def _filter_monotone(rep, r4, mp, funcs):
    """Filters only remove candidates and None means no filter, decided on
    the paths that accept a candidate (reach the statement that adds it to
    the result / return True):

      for every accepting path P there is an accepting path P' that is
      feasible when the filter (and the lists derived from it) is None and
      whose conditions other than those about the filter are a subset of
      P's.

    So switching the filter off never loses a result (None = no filter) and
    switching it on never adds one.  The shape of the code (nested ifs,
    `continue`, a boolean temporary, an extracted predicate helper) does not
    matter: helpers are inlined first and conditions are evaluated in
    three-valued logic under filter = None."""
    from ..inline import Flat
    from ..paths import block_paths, return_paths
    from ..constprop import evaluate, UNKNOWN, _lookup_at
    nuses = 0
    keep = tuple(funcs)
    for fn in funcs:
        f0 = mp.methods.get(fn)
        if f0 is None:
            raise AnalysisError('MainProvider.%s vanished' % fn)
        r4.functions.add(f0.fq)
        f = Flat(f0, keep=keep)
        used = {x.id for x in ast.walk(f.node) if isinstance(x, ast.Name)} \
            & FILTER_NAMES
        if not used:
            continue
        # scopes: (label, paths, accept predicate)
        scopes = []
        adds = [st for st in ast.walk(f.node) if isinstance(st, ast.Expr) and
                isinstance(st.value, ast.Call) and
                isinstance(st.value.func, ast.Attribute) and
                st.value.func.attr in ('add', 'append') and
                isinstance(st.value.func.value, ast.Name) and
                (st.value.func.value.id.startswith('rtn') or
                 st.value.func.value.id.startswith('result'))]
        if adds:
            loops = [n for n in ast.walk(f.node) if isinstance(n, ast.For)]
            for lp in loops:
                inner = [x for b in lp.body for x in ast.walk(b)]
                if not any(a in inner for a in adds):
                    continue
                direct = [x for x in lp.body]
                targets = [a for a in adds] + \
                    [n for n in loops if n is not lp and n in inner and
                     any(a in list(ast.walk(n)) for a in adds)]
                ps = block_paths(lp.body, f)
                if ps is None:
                    raise AnalysisError('%s: too many paths in loop' % fn)
                scopes.append((
                    'loop@%s' % norm(lp.target, 30), ps,
                    lambda p, T=targets: any(e in T for e in p.effects)))
                # leaving the candidate loop early drops the remaining
                # candidates, unless what was added does not depend on the
                # loop variable (later iterations could only add the same)
                lvars = {x.id for x in ast.walk(lp.target)
                         if isinstance(x, ast.Name)}
                for bp_ in ps:
                    if not isinstance(bp_.ret_stmt, ast.Break):
                        continue
                    added = [e for e in bp_.effects if e in adds]
                    harmless = added and all(
                        not ({x.id for x in ast.walk(e.value.args[0])
                              if isinstance(x, ast.Name)} & lvars)
                        for e in added if e.value.args)
                    r4.ob(bool(harmless), '%s|break@%d' % (
                        fn, bp_.ret_stmt.lineno))
                    if not harmless:
                        conds = ' / '.join(
                            ('' if pol else 'not ') + norm(t, 40)
                            for t, pol in bp_.facts[-3:])
                        rep.finding(
                            r4, f0.qualname, 'break [%s]' % conds,
                            'filter-break', MAIN, bp_.ret_stmt.lineno,
                            'the loop over the candidates (%s) is left '
                            'with break on the path [%s] without a result '
                            'that is independent of the loop variable '
                            'having been added: the remaining candidates '
                            'are never examined, so results are lost'
                            % (norm(lp.target, 30), conds))
        else:
            ps = return_paths(f, inline=False)
            if ps is None:
                raise AnalysisError('%s: too many paths' % fn)
            scopes.append((
                'return', ps,
                lambda p: p.value is not None and not (
                    isinstance(p.value, ast.Constant) and
                    not p.value.value)))
        for name in sorted(used):
            fam = _family(name)
            consts = {n: None for n in fam}
            nuses += 1
            r4.sites += 1
            problems = []
            for label, ps, accepts in scopes:
                acc = [p for p in ps if accepts(p)]
                if not acc:
                    continue

                def facts_of(p):
                    out = []
                    for (t, pol), pos in zip(p.facts, p.fact_pos):
                        out.append((p.resolve(t), pol, pos))
                    return out

                def feasible_none(p):
                    for t, pol, pos in facts_of(p):
                        v = evaluate(t, _lookup_at(p, pos, consts, ()))
                        if v is not UNKNOWN and bool(v) != pol:
                            return False
                    return True

                def nonfilter(p):
                    out = set()
                    for t, pol, pos in facts_of(p):
                        if {x.id for x in ast.walk(t)
                                if isinstance(x, ast.Name)} & fam:
                            continue
                        out.add((norm(t, 200), pol))
                    return out
                base = [nonfilter(p) for p in acc if feasible_none(p)]
                for p in acc:
                    nf = nonfilter(p)
                    if not any(b <= nf for b in base):
                        problems.append((label, p))
            ok = not problems
            r4.ob(ok, '%s|%s' % (fn, name),
                  {'function': fn, 'filter': name,
                   'scopes': [l for l, _p, _a in scopes]})
            if not ok:
                label, p = problems[0]
                conds = ' / '.join(('' if pol else 'not ') + norm(t, 40)
                                   for t, pol in p.facts[-4:])
                last = [e for e in p.effects if hasattr(e, 'lineno')]
                rep.finding(
                    r4, f0.qualname, 'filter %s' % name, 'filter-' + name,
                    MAIN, last[-1].lineno if last else f0.node.lineno,
                    'a candidate is accepted on the path [%s] but on no '
                    'path that is possible when %s is None under the same '
                    'other conditions: leaving the filter out loses results '
                    '(None is filtered too), or setting it can add results'
                    % (conds, name))
    return nuses


def no_memoised_repository_reads(repo, rep):
    """C13.R6: the mock server's functions compute their answers from the
    repository as it is now.  A functools cache on a function that takes
    the provider (self) or a store as an argument returns what the
    repository held when the key was first used: once a filter class has
    been expanded to its subclasses, classes added below it later are not
    seen by ResultClass / AssocClass filters (results missing, traversal no
    longer symmetric)."""
    r6 = rep.rule('C13.R6', 'functions of the mock server that read the '
                  'repository are not memoised')
    CACHES = ('lru_cache', 'cache', 'cached_property', 'memoize', 'memoized')
    nfun = 0
    for rel, m in sorted(repo.modules.items()):
        if not m.relpath.startswith('pywbem_mock/'):
            continue
        for f in m.all_funcs():
            nfun += 1
            for d in f.node.decorator_list:
                fn = d.func if isinstance(d, ast.Call) else d
                name = (dotted(fn) or '').split('.')[-1]
                if name in CACHES:
                    r6.sites += 1
                    r6.ob(False, f.qualname)
                    rep.finding(r6, f.qualname, '@' + norm(d, 50),
                                'memoised', m.relpath, f.node.lineno,
                                '%s is memoised with %s, keyed by its '
                                'arguments (the provider / store objects '
                                'live as long as the connection): later '
                                'changes of the repository (classes or '
                                'instances added, modified, deleted) are '
                                'not reflected in its results'
                                % (f.qualname, name))
    r6.sites += 1
    r6.ob(nfun > 200, 'functions-scanned', {'functions': nfun})
    if nfun < 200:
        raise AnalysisError('pywbem_mock: only %d functions scanned' % nfun)
    # positive control: the recogniser sees a decorated function
    probe = ast.parse('@lru_cache(maxsize=None)\ndef f(self, a):\n    pass')
    d = probe.body[0].decorator_list[0]
    if (dotted(d.func) or '').split('.')[-1] not in CACHES:
        raise AnalysisError('C13.R6 recogniser broken')


def adapters_forward_every_filter(repo, rep, rid='C13.R7',
                                  select=lambda n: 'Associator' in n or
                                  'Reference' in n, floor=8):
    """C13.R7 (also C14.R16 for the Open/Pull/Close adapters): the
    server-side adapters (_imeth_...) hand every parameter of the provider
    method on.  A parameter that the adapter drops (ResultRole, Role,
    AssocClass, ResultClass, MaxObjectCount, ...) takes the provider's
    default None, so that one variant ignores what the client sent while
    its siblings apply it: names and full results, traditional and
    Open/Iter results disagree, or a response carries more objects than
    MaxObjectCount."""
    MOCKF = 'pywbem_mock/_wbemconnection_mock.py'
    r7 = rep.rule(rid, 'adapters pass every provider parameter on')
    mock = repo.cls(MOCKF, 'FakedWBEMConnection')
    mp = repo.cls(MAIN, 'MainProvider')
    for n, f in sorted(mock.methods.items()):
        if not n.startswith('_imeth_') or not select(n):
            continue
        op = n[len('_imeth_'):]
        pm = mp.find_method(op)
        if pm is None:
            raise AnalysisError('MainProvider.%s vanished' % op)
        from ..inline import Flat as _Flat
        from ..model import call_arguments
        ff = _Flat(f, aliases=True)
        calls = [c for c in walk_no_nested(ff.node) if isinstance(c, ast.Call)
                 and (dotted(c.func) or '').endswith('.' + op)]
        r7.sites += 1
        r7.functions.add(f.fq)
        if len(calls) != 1:
            r7.ob(False, n)
            rep.finding(r7, f.qualname, op, 'provider-call', MOCKF,
                        f.node.lineno, '%d calls of the provider method'
                        % len(calls))
            continue
        c = calls[0]
        ps = [p for p in pm.params if p != 'self']
        given, rest = call_arguments(ff.node, c, ps, f)
        passed = set(given)
        star = bool(rest)
        missing = [] if star else [p for p in ps if p not in passed]
        r7.ob(not missing, n, {'passed': sorted(passed)})
        if missing:
            rep.finding(r7, f.qualname, norm(c, 60), 'filter-dropped', MOCKF,
                        c.lineno,
                        'the adapter does not pass %s to MainProvider.%s: '
                        'the provider uses its default (None = no filter), '
                        'so this operation ignores what the client sent '
                        'while the sibling operations apply it'
                        % (', '.join(missing), op))
    if r7.sites < floor:
        raise AnalysisError('%s: only %d adapters' % (rid, r7.sites))


def shadow_writes_follow_all_checks(repo, rep):
    """C13.R13: a cross-namespace association is stored as one instance per
    participating namespace (the shadow copies that make the traversal
    symmetric).  The loop that stores them refuses nothing: every check
    (class exists, path can be built, instance does not exist yet) has run
    for *all* namespaces before the first copy is stored.  A loop that
    checks and stores per namespace leaves the copies of the namespaces
    visited before the refusal behind - y is then associated with x (the
    orphan shadow) while x is not associated with y."""
    IWPF = 'pywbem_mock/_instancewriteprovider.py'
    r13 = rep.rule('C13.R13', 'the loop that stores the per-namespace copies '
                   'of an association refuses nothing')
    cls = repo.cls(IWPF, 'InstanceWriteProvider')
    n = 0
    from ..inline import Flat
    for f in cls.methods.values():
        ff = Flat(f, keep=('add_new_instance',))
        for lp in walk_no_nested(ff.node):
            if not isinstance(lp, (ast.For, ast.While)):
                continue
            writes_ = [c for c in ast.walk(lp) if isinstance(c, ast.Call) and
                       isinstance(c.func, ast.Attribute) and (
                           (c.func.attr in ('create', 'update') and
                            norm(c.func.value).endswith('_store')) or
                           dotted(c.func) == 'self.add_new_instance')]
            if not writes_:
                continue
            n += 1
            r13.sites += 1
            r13.functions.add(f.fq)
            raises = [x for s_ in lp.body for x in ast.walk(s_)
                      if isinstance(x, ast.Raise)]
            r13.ob(not raises, '%s|%s' % (f.qualname, norm(lp, 40)))
            for x in raises[:1]:
                rep.finding(r13, f.qualname, norm(writes_[0], 50),
                            'check-inside-write-loop', IWPF, x.lineno,
                            'the loop that stores one copy per namespace '
                            'also raises (%s): when a later namespace is '
                            'refused, the copies stored for the earlier '
                            'ones stay - an orphan shadow instance that '
                            'makes the traversal asymmetric'
                            % norm(x, 60))
    if n < 1:
        raise AnalysisError('C13.R13: the loop that stores the '
                            'per-namespace copies was not found')


def results_are_stamped_on_copies(repo, rep):
    """C13.R9: the association operations complete what they return (host,
    namespace) on copies.  The traversal helpers hand out the very path
    objects stored as reference property values of the association
    instances; a loop that assigns `x.host = ...` (or `x.path.host`) to the
    elements of such a list writes into the repository - after the first
    AssociatorNames() the stored references carry a host, no longer equal
    the host-less paths of later requests, and References / Associators of
    the same objects come back empty or fail with CIM_ERR_NOT_FOUND.  The
    list iterated by a stamping loop must therefore be built from copies
    (`p.copy()`, `deepcopy(p)`, a constructor call, or the copying reader
    `_get_instance`)."""
    r9 = rep.rule('C13.R9', 'results are completed (host / namespace) on '
                  'copies, never on objects taken from the repository')
    mp = repo.cls(MAIN, 'MainProvider')

    def fresh_elem(e):
        if isinstance(e, ast.Call):
            d = dotted(e.func) or ''
            if isinstance(e.func, ast.Attribute) and e.func.attr == 'copy' \
                    and not e.args:
                return True
            if d.split('.')[-1] in ('deepcopy',):
                return True
            if d == 'self._get_instance':
                return True         # copying reader (C10.R5)
            if repo.find_class(d) is not None:
                return True         # a new object
        return False

    def fresh_list(f, name):
        defs = [n for n in walk_no_nested(f.node)
                if isinstance(n, ast.Assign) and len(n.targets) == 1 and
                isinstance(n.targets[0], ast.Name) and
                n.targets[0].id == name]
        if not defs:
            return False
        for d_ in defs:
            v = d_.value
            if isinstance(v, ast.ListComp) and fresh_elem(v.elt):
                continue
            if isinstance(v, ast.List) and not v.elts:
                # filled by append(): every appended element is fresh
                apps = [c for c in walk_no_nested(f.node)
                        if isinstance(c, ast.Call) and
                        isinstance(c.func, ast.Attribute) and
                        c.func.attr == 'append' and
                        norm(c.func.value) == name]
                if apps and all(c.args and (fresh_elem(c.args[0]) or (
                        isinstance(c.args[0], ast.Name) and
                        fresh_local(f, c.args[0].id)))
                        for c in apps):
                    continue
            return False
        return True

    def fresh_local(f, name, depth=0):
        """every binding of the local is a new object: a copy, a
        constructor call, the copying reader - or an element of a list of
        such objects"""
        if name in f.params or depth > 2:
            return False
        binds = []
        for n in walk_no_nested(f.node):
            if isinstance(n, ast.Assign) and len(n.targets) == 1 and \
                    isinstance(n.targets[0], ast.Name) and \
                    n.targets[0].id == name:
                binds.append(('assign', n.value))
            elif isinstance(n, (ast.For, ast.comprehension)) and \
                    isinstance(n.target, ast.Name) and n.target.id == name:
                binds.append(('iter', n.iter))
        if not binds:
            return False
        for kind_, e in binds:
            if kind_ == 'assign':
                if fresh_elem(e):
                    continue
                if isinstance(e, ast.Call) and \
                        dotted(e.func) == 'self._get_bare_instance' and \
                        any(k.arg == 'copy' and norm(k.value) == 'True'
                            for k in e.keywords):
                    continue
                if isinstance(e, ast.Name) and fresh_local(f, e.id,
                                                           depth + 1):
                    continue
                return False
            if not (isinstance(e, ast.Name) and fresh_list(f, e.id)):
                return False
        return True
    for name, f in sorted(mp.methods.items()):
        stamps = {}
        for n in walk_no_nested(f.node):
            if isinstance(n, ast.Attribute) and \
                    isinstance(n.ctx, ast.Store):
                b_ = n.value
                while isinstance(b_, ast.Attribute):
                    b_ = b_.value
                if isinstance(b_, ast.Name) and b_.id not in ('self', 'cls') \
                        and b_.id not in f.params:
                    stamps.setdefault(b_.id, []).append(n)
        for v, nodes in sorted(stamps.items()):
            r9.sites += 1
            r9.functions.add(f.fq)
            ok = fresh_local(f, v)
            r9.ob(ok, '%s|%s' % (name, v),
                  {'stamped': [norm(s_, 30) for s_ in nodes]})
            if not ok:
                rep.finding(r9, f.qualname, '%s: %s = ...'
                            % (v, norm(nodes[0], 30)),
                            'stamped-in-place', MAIN, nodes[0].lineno,
                            '%s is assigned on %s, which is not evidently a '
                            'new object (a copy, a constructor result, an '
                            'element of a list of copies): the objects '
                            'stored in the repository (reference property '
                            'values, instance paths) are changed, and later '
                            'traversals that compare them with host-less '
                            'paths miss them' % (norm(nodes[0], 30), v))
    if r9.sites < 3:
        raise AnalysisError('C13.R9: only %d completed locals found'
                            % r9.sites)


def adapter_keys_agree(repo, rep, rid, select, floor):
    """The server-side adapters (_imeth_<Op>) hand each request parameter to
    the provider method under its own name: a keyword `P=...` of the
    provider call that reads a request parameter reads `params['P']` /
    `params.get('P')` (directly or through a local / a converter).  Reading
    another key (Role=params.get('ResultRole')) silently replaces what the
    client sent by another parameter - or by None - in this one operation,
    while its siblings and the traditional variant apply it."""
    MOCKF = 'pywbem_mock/_wbemconnection_mock.py'
    r = rep.rule(rid, 'adapters read each request parameter under the name '
                 'of the provider parameter it is passed to')
    mock = repo.cls(MOCKF, 'FakedWBEMConnection')
    n_kw = 0
    for n, f in sorted(mock.methods.items()):
        if not n.startswith('_imeth_') or not select(n[len('_imeth_'):]):
            continue
        op = n[len('_imeth_'):]

        def keys(e, depth=0):
            out = set()
            for x in ast.walk(e):
                if isinstance(x, ast.Call) and \
                        dotted(x.func) == 'params.get' and x.args:
                    out.add(const_str(x.args[0]))
                elif isinstance(x, ast.Subscript) and \
                        norm(x.value) == 'params':
                    out.add(const_str(x.slice))
                elif isinstance(x, ast.Name) and depth < 2:
                    for a in walk_no_nested(f.node):
                        if isinstance(a, ast.Assign) and \
                                len(a.targets) == 1 and \
                                norm(a.targets[0]) == x.id:
                            out |= keys(a.value, depth + 1)
            return out
        for c in walk_no_nested(f.node):
            if not (isinstance(c, ast.Call) and
                    (dotted(c.func) or '').endswith('.' + op)):
                continue
            r.functions.add(f.fq)
            for k in c.keywords:
                if not k.arg:
                    continue
                ks = keys(k.value)
                if not ks:
                    continue
                n_kw += 1
                r.sites += 1
                ok = ks == {k.arg}
                r.ob(ok, '%s|%s' % (n, k.arg), {'reads': sorted(
                    x or '?' for x in ks)})
                if not ok:
                    rep.finding(r, f.qualname, '%s=%s' % (k.arg,
                                                          norm(k.value, 50)),
                                'wrong-request-key', MOCKF, k.value.lineno,
                                'the provider parameter %s is filled from '
                                'the request parameter(s) %s: what the '
                                'client sent as %s is ignored in %s (the '
                                'sibling adapters read %r)'
                                % (k.arg, sorted(x or '?' for x in ks),
                                   k.arg, op, k.arg))
    if n_kw < floor:
        raise AnalysisError('%s: only %d adapter keywords read a request '
                            'parameter' % (rid, n_kw))


def no_memoised_parsers(repo, rep, rid, relpath):
    """A function of the object model that builds a CIM object is not
    memoised: CIM objects are mutable (host, namespace, keybindings can be
    assigned), so a cache hands the same object to every caller that passes
    the same text - a caller that adjusts its result changes what the next
    caller gets for the same URI."""
    r = rep.rule(rid, 'functions of %s are not memoised' % relpath)
    CACHES = ('lru_cache', 'cache', 'cached_property', 'memoize', 'memoized')
    m = repo.module(relpath)
    n = 0
    for f in m.all_funcs():
        n += 1
        for d in f.node.decorator_list:
            fn = d.func if isinstance(d, ast.Call) else d
            name = (dotted(fn) or '').split('.')[-1]
            if name in CACHES:
                r.sites += 1
                r.ob(False, f.qualname)
                rep.finding(r, f.qualname, '@' + norm(d, 50), 'memoised',
                            relpath, f.node.lineno,
                            '%s is memoised with %s: every call with equal '
                            'arguments returns the same (mutable) object, so '
                            'changing one result changes the others'
                            % (f.qualname, name))
    r.sites += 1
    r.ob(n > 100, 'functions-scanned', {'functions': n})
    if n < 100:
        raise AnalysisError('%s: only %d functions scanned' % (rid, n))
    probe = ast.parse('@functools.lru_cache(maxsize=256)\ndef f(a):\n'
                      '    pass')
    d = probe.body[0].decorator_list[0]
    if (dotted(d.func) or '').split('.')[-1] not in CACHES:
        raise AnalysisError(rid + ' recogniser broken')


def null_references_reference_nothing(repo, rep):
    """C13.R15: a reference property of a stored association instance can
    be NULL (add_cimobjects() stores what it is given; MOF allows
    `grp = NULL`).  A NULL end references nothing: the traversal must skip
    it.  `prop.value == instname` with prop.value None is answered by the
    reflected CIMInstanceName.__eq__, which raises TypeError for a
    non-path operand, and `prop.value.classname` raises AttributeError - so
    one such instance in the namespace makes every Associators / References
    call there fail.  Every use of `<prop>.value` that is governed by
    `<prop>.type == 'reference'` in the traversal functions is therefore
    also governed by a test that the value is not None."""
    from ..cfg import stmt_facts, GuardWalker
    r = rep.rule('C13.R15', 'the value of a reference property is used as a '
                 'path only where it is known not to be None')
    mp = repo.cls(MAIN, 'MainProvider')
    n = 0
    for name in names.ASSOC_FUNCS:
        f = mp.methods.get(name)
        if f is None:
            continue
        sf = stmt_facts(f.node)
        for st, (facts, _t) in sf.items():
            atoms = [a for t0, p0 in facts for a in GuardWalker._atoms(t0, p0)]
            refvars = {norm(t.left.value) for t, pol in atoms
                       if isinstance(t, ast.Compare) and
                       len(t.ops) == 1 and
                       ((isinstance(t.ops[0], ast.Eq) and pol) or
                        (isinstance(t.ops[0], ast.NotEq) and not pol)) and
                       isinstance(t.left, ast.Attribute) and
                       t.left.attr == 'type' and
                       const_str(t.comparators[0]) == 'reference'}
            if not refvars:
                continue
            # the expressions evaluated by this statement itself
            if isinstance(st, (ast.If, ast.While)):
                exprs = [st.test]
            elif isinstance(st, ast.For):
                exprs = [st.iter]
            elif isinstance(st, (ast.Try, ast.With)):
                exprs = []
            else:
                exprs = [st]
            for v in refvars:
                uses = [x for e in exprs for x in ast.walk(e)
                        if isinstance(x, ast.Attribute) and x.attr == 'value'
                        and norm(x.value) == v]
                if not uses:
                    continue
                # a use inside `is None` / `is not None` is the test itself
                tests = [c for e in exprs for c in ast.walk(e)
                         if isinstance(c, ast.Compare) and len(c.ops) == 1 and
                         isinstance(c.ops[0], (ast.Is, ast.IsNot)) and
                         isinstance(c.comparators[0], ast.Constant) and
                         c.comparators[0].value is None]
                uses = [u for u in uses if not any(u is t.left for t in tests)]
                if not uses:
                    continue
                n += 1
                r.sites += 1
                r.functions.add(f.fq)
                vv = v + '.value'
                ok = any(
                    (isinstance(t, ast.Compare) and len(t.ops) == 1 and
                     norm(t.left) == vv and
                     isinstance(t.comparators[0], ast.Constant) and
                     t.comparators[0].value is None and
                     ((isinstance(t.ops[0], ast.IsNot) and pol) or
                      (isinstance(t.ops[0], ast.Is) and not pol))) or
                    (norm(t) == vv and pol)
                    for t, pol in atoms)
                r.ob(ok, '%s|%s' % (f.qualname, norm(uses[0], 40)) +
                     '|%d' % getattr(st, 'lineno', 0))
                if not ok:
                    rep.finding(r, f.qualname, norm(
                        st.test if isinstance(st, (ast.If, ast.While))
                        else st, 70), 'null-reference-used', MAIN,
                        st.lineno,
                        '%s is used as an instance path here without a test '
                        'that it is not None: a stored association instance '
                        'with a NULL reference makes the traversal raise '
                        'TypeError / AttributeError for every source in '
                        'that namespace' % vv)
    if n < 1:
        raise AnalysisError('C13.R15: only %d uses of reference values in '
                            'the traversal functions' % n)
