"""C07 - WBEM URIs round-trip; canonical URIs respect path equality."""
import ast
import re

from ..model import (AnalysisError, walk_no_nested, dotted, norm, const_str,
                     eqsrc)
from ..escape import EscapeAnalysis
from ..guards import conv_guard_factory, regex_const
from ..resolve import Resolver
from ..cfg import stmt_facts
from .. import rx

EXPLANATION = (
    "Static check of the URI printer/parser pair: (R1) exception-escape "
    "analysis of from_wbem_uri (both classes) and _kbstr_to_cimval: only "
    "ValueError may propagate for str input; regex-guarded conversions are "
    "discharged by analysing the extracted patterns; every alternative of "
    "the key-value pattern has minimum length 1 (so val[0]/val[-1] are "
    "defined); (R2) the printer's pass-through alphabet for quoted values "
    "(everything except the two characters its replace-chain escapes) is "
    "tested against the parser's patterns with representative characters "
    "(newline, CR, tab, quote, backslash, comma, '=', non-ASCII, astral) by "
    "building the URI text the printer's own escape map yields and matching "
    "it with the extracted patterns; host and namespace forms likewise; "
    "(R3) a value printed with repr() must not be an instance of a repo "
    "class overriding __repr__ (debug format), and the output forms of "
    "float repr must be in the language of REAL_VALUE; (R4) in both "
    "to_wbem_uri methods host, namespace, classname reach the result through "
    "case(), keys through case_sorted(), and the recursive call for "
    "reference keys passes format=format; (R5) case() lower-cases exactly "
    "for 'canonical' and case_sorted sorts after folding. Equality of the "
    "reparsed path for every value is not decided.")
ASSUMPTIONS = [
    "input to from_wbem_uri is a str (the property's quantifier)",
    "assert statements in from_wbem_uri restate what the regex guarantees "
    "(group 4 is \\w+, the separator is part of the matched text)",
    "values produced by _kbstr_to_cimval are str/bool/int/float/CIMDateTime/"
    "CIMInstanceName, so the TypeError branches of _cim_keybinding are not "
    "reachable from the parser (reviewed_safe entries)",
]

OBJ = 'pywbem/_cim_obj.py'
UTL = 'pywbem/_utils.py'

REP_CHARS = ['a', ' ', '\n', '\r', '\t', '"', '\\', "'", ',', '=', '.', '/',
             ':', 'é', '\U0001F600', '%', '+']
REP_FLOATS = [1.5, -0.25, 1e22, 1.5e300, 1e-7, 5e-324, float('inf'),
              float('-inf'), float('nan'), 100.0, 1e16]


def replace_chain(expr):
    """[(old, new)] of a chain x.replace(a,b).replace(c,d) (in application
    order), and the base expression."""
    chain = []
    cur = expr
    while isinstance(cur, ast.Call) and isinstance(cur.func, ast.Attribute) \
            and cur.func.attr == 'replace' and len(cur.args) == 2 and \
            const_str(cur.args[0]) is not None and \
            const_str(cur.args[1]) is not None:
        chain.append((const_str(cur.args[0]), const_str(cur.args[1])))
        cur = cur.func.value
    chain.reverse()
    return chain, cur


def apply_chain(chain, s):
    for a, b in chain:
        s = s.replace(a, b)
    return s


def key_values_are_never_folded(repo, rep):
    """C07.R13: the canonical format folds *names* (host, namespace, class
    name, key names); key *values* are data - a string key 'ACME:1' and
    'acme:1' name different instances.  In the printers of CIMInstanceName
    nothing derived from a keybinding value (including the URI text of a
    nested reference, whose own names were already folded by the recursive
    call) goes through lower() / casefold() / the local case() folding
    function: otherwise from_wbem_uri(to_wbem_uri(p, 'canonical')) != p and
    unequal paths get the same canonical URI."""
    r13 = rep.rule('C07.R13', 'key values are never case-folded by the '
                   'printers')
    inm = repo.cls(OBJ, 'CIMInstanceName')
    n = 0
    for f in inm.methods.values():
        # names bound to key values: d[key] of .keybindings, the second
        # target of .keybindings.items(), values()
        tainted = set()
        folders = {g.name for g in ast.walk(f.node)
                   if isinstance(g, ast.FunctionDef) and g is not f.node and
                   any(isinstance(c, ast.Call) and
                       isinstance(c.func, ast.Attribute) and
                       c.func.attr in ('lower', 'casefold')
                       for c in ast.walk(g))}
        changed = True
        while changed:
            changed = False
            for a in walk_no_nested(f.node):
                new = None
                if isinstance(a, ast.Assign) and len(a.targets) == 1 and \
                        isinstance(a.targets[0], ast.Name):
                    v = a.value
                    if (isinstance(v, ast.Subscript) and
                            'keybindings' in norm(v.value)) or any(
                            isinstance(x, ast.Name) and x.id in tainted
                            for x in ast.walk(v)):
                        new = a.targets[0].id
                elif isinstance(a, ast.For) and \
                        'keybindings' in norm(a.iter):
                    it = norm(a.iter)
                    if it.endswith('.items()') and \
                            isinstance(a.target, ast.Tuple) and \
                            len(a.target.elts) == 2 and \
                            isinstance(a.target.elts[1], ast.Name):
                        new = a.target.elts[1].id
                    elif it.endswith('.values()') and \
                            isinstance(a.target, ast.Name):
                        new = a.target.id
                if new and new not in tainted:
                    tainted.add(new)
                    changed = True
        if not tainted:
            continue
        n += 1
        r13.sites += 1
        r13.functions.add(f.fq)
        for c in walk_no_nested(f.node):
            if not isinstance(c, ast.Call):
                continue
            arg = None
            if isinstance(c.func, ast.Attribute) and \
                    c.func.attr in ('lower', 'casefold'):
                arg = c.func.value
            elif isinstance(c.func, ast.Name) and c.func.id in folders and \
                    c.args:
                arg = c.args[0]
            if arg is None or not any(
                    isinstance(x, ast.Name) and x.id in tainted
                    for x in ast.walk(arg)):
                continue
            r13.ob(False, '%s|%s' % (f.qualname, norm(c, 50)))
            rep.finding(r13, f.qualname, norm(c, 70), 'value-folded', OBJ,
                        c.lineno,
                        '%s case-folds text that comes from a keybinding '
                        'value: string / char16 key values (also those '
                        'inside a nested reference) are changed, so the '
                        'printed URI no longer parses back to an equal path'
                        % norm(c, 60))
        r13.ob(True, f.qualname + ':scanned')
    if n < 1:
        raise AnalysisError('C07.R13: only %d CIMInstanceName methods handle '
                            'key values' % n)


def _case_folds_exactly_for_canonical(case, outer=None):
    """every return path of the nested case() helper returns the folded
    parameter when format == 'canonical' holds and the parameter itself
    otherwise (whatever statement form is used)"""
    from ..paths import return_paths
    params = [p for p in case.params]
    if len(params) != 1:
        return False
    par = params[0]
    paths = return_paths(case, max_paths=16, inline=False)
    if not paths:
        return False
    todo = []
    for p_ in paths:
        v = p_.value
        # one step through the local the result was put in (the definition
        # `str_ = str_.lower()` mentions the name itself)
        if isinstance(v, ast.Name) and v.id in p_.env:
            v = p_.env[v.id][0]
        todo.append((list(p_.facts), v))
    for facts, v in todo:
        if isinstance(v, ast.IfExp):
            todo.append((facts + [(v.test, True)], v.body))
            todo.append((facts + [(v.test, False)], v.orelse))
            continue
        canon = None
        for t, pol in facts:
            if isinstance(t, ast.Name) and outer is not None and \
                    t.id not in case.params:
                # a flag computed once in the enclosing function
                defs = [a.value for a in walk_no_nested(outer.node)
                        if isinstance(a, ast.Assign) and
                        len(a.targets) == 1 and
                        isinstance(a.targets[0], ast.Name) and
                        a.targets[0].id == t.id]
                if len(defs) == 1:
                    t = defs[0]
            if eqsrc(t, "format == 'canonical'"):
                canon = pol
            elif eqsrc(t, "format != 'canonical'"):
                canon = not pol
        if canon is None or v is None:
            return False
        if canon:
            if not (isinstance(v, ast.Call) and not v.args and
                    isinstance(v.func, ast.Attribute) and
                    v.func.attr in ('lower', 'casefold') and
                    norm(v.func.value) == par):
                return False
        elif norm(v) != par:
            return False
    return True


def _sorted_after_folding(e, names):
    """`e` is sorted(<items>) with every item (or the first component of
    every item tuple) a key name folded by case() - so the order is the
    order of the folded names"""
    if not (isinstance(e, ast.Call) and dotted(e.func) == 'sorted' and
            len(e.args) == 1 and not e.keywords):
        return False
    a = e.args[0]
    if not isinstance(a, (ast.ListComp, ast.GeneratorExp, ast.SetComp)) or \
            len(a.generators) != 1 or a.generators[0].ifs:
        return False
    g = a.generators[0]
    it = norm(g.iter)
    if not (it in names or 'keybindings' in it):
        return False
    elt = a.elt
    if isinstance(elt, ast.Tuple) and elt.elts:
        elt = elt.elts[0]
    tgt = g.target
    if isinstance(tgt, ast.Tuple) and tgt.elts:
        tgt = tgt.elts[0]
    return isinstance(elt, ast.Call) and dotted(elt.func) == 'case' and \
        len(elt.args) == 1 and norm(elt.args[0]) == norm(tgt)


def run(repo, rep, tier):
    r1 = rep.rule('C07.R1', 'from_wbem_uri raises only ValueError')
    r2 = rep.rule('C07.R2', 'printer alphabet inside parser language')
    r3 = rep.rule('C07.R3', 'per-type printing uses a parser-compatible '
                  'printer')
    r4 = rep.rule('C07.R4', 'canonical form folds every name component')
    r5 = rep.rule('C07.R5', 'case()/case_sorted() consistent with equality')
    nested_reference_rule(repo, rep)
    keybinding_tokeniser_rule(repo, rep)
    real_key_text_rule(repo, rep)
    printed_prefix_rule(repo, rep)
    from .c13 import no_memoised_parsers
    no_memoised_parsers(repo, rep, 'C07.R10', OBJ)
    # the error messages on the parse path can be built: a message whose
    # format template already contains the (brace-carrying) key text makes
    # _format() raise KeyError / IndexError instead of the ValueError the
    # parser - and the CIMDateTime probe inside _kbstr_to_cimval - rely on
    key_values_are_never_folded(repo, rep)
    from .c06 import datetime_layout_rule
    datetime_layout_rule(repo, rep, rep.rule(
        'C07.R12', 'a datetime key is printed in the 25-character layout '
        'that CIMDateTime(text) recognises on the way back'))
    r11 = rep.rule('C07.R11', 'error messages on the URI parse path can be '
                   'built (constant, well-formed format templates)')
    from ..guards import run_format_rule
    run_format_rule(repo, rep, r11, lambda f: f.file in (
        OBJ, 'pywbem/_cim_types.py', 'pywbem/_utils.py'))
    inm = repo.cls(OBJ, 'CIMInstanceName')
    cnm = repo.cls(OBJ, 'CIMClassName')

    # ---- R1 ---------------------------------------------------------------
    log = []
    ea = EscapeAnalysis(repo, Resolver(repo),
                        conv_guard=conv_guard_factory(repo, log))
    entries = []
    for c, n in ((inm, 'from_wbem_uri'), (cnm, 'from_wbem_uri'),
                 (inm, '_kbstr_to_cimval')):
        f = c.methods.get(n)
        if f is None:
            raise AnalysisError('%s.%s vanished' % (c.name, n))
        entries.append(f)
    ea.solve(entries)
    seen = set()
    for f in entries:
        r1.sites += 1
        r1.functions.add(f.fq)
        for e in ea.summ.get(f.fq, {}).values():
            if e.kind == 'assert':
                continue
            ok = ea.h.is_sub(e.exc, 'ValueError')
            r1.ob(ok, '%s|%s|%s' % (e.func, e.construct, e.exc),
                  {'entry': f.qualname, 'may_raise': e.exc,
                   'origin': '%s: %s' % (e.func, e.construct)})
            if not ok and e.key not in seen:
                seen.add(e.key)
                rep.finding(r1, e.func, e.construct, e.exc, e.file, e.line,
                            '%s can escape from %s (documented: ValueError '
                            'only)' % (e.exc, f.qualname),
                            path=[f.qualname] + list(e.chain) + [e.func])
    r1.notes.append('functions analysed: %d; calls %s'
                    % (len(ea.analysed), ea.call_stats))
    r1.notes.append('regex guards evaluated: %d' % len(log))
    # min length of key value alternatives
    mod = repo.module(OBJ)
    kbf = inm.methods['_kbstr_to_cimval']
    for cname in ('_KB_NOT_QUOTED', '_KB_SINGLE_QUOTED', '_KB_DOUBLE_QUOTED'):
        rc = regex_const(repo, kbf, ast.Name(id=cname, ctx=ast.Load()))
        if rc is None:
            raise AnalysisError('%s not resolvable' % cname)
        ml = rx.min_len(rx.parse(rc[0], rc[1]))
        ok = ml >= 1
        r1.ob(ok, 'minlen:' + cname, {'pattern': rc[0], 'min_length': ml})
        if not ok:
            rep.finding(r1, kbf.qualname, cname + ' = ' + rc[0], 'empty-value',
                        OBJ, kbf.node.lineno, 'the key value pattern admits '
                        'an empty value: val[0] raises IndexError')

    # ---- R2 ---------------------------------------------------------------
    tw = inm.methods.get('to_wbem_uri')
    if tw is None:
        raise AnalysisError('CIMInstanceName.to_wbem_uri vanished')
    r2.functions.add(tw.fq)
    facts = stmt_facts(tw.node)
    str_chain = None
    chain_stmt = None
    nested = {x.name: x for x in ast.walk(tw.node)
              if isinstance(x, ast.FunctionDef) and x is not tw.node}

    def chain_on(expr_root, varname, depth=0):
        """escape chain applied to `varname` somewhere inside expr_root,
        directly or inside a local helper / module function it is passed
        to"""
        for x in ast.walk(expr_root):
            ch, base = replace_chain(x)
            if ch and norm(base) == varname:
                return ch
        if depth > 1:
            return None
        for x in ast.walk(expr_root):
            if isinstance(x, ast.Call) and isinstance(x.func, ast.Name):
                g = nested.get(x.func.id)
                gnode = g
                if g is None:
                    gf = repo.module(OBJ).functions.get(x.func.id)
                    gnode = gf.node if gf is not None else None
                if gnode is None:
                    continue
                for i, a in enumerate(x.args):
                    if norm(a) == varname and i < len(gnode.args.args):
                        for st in gnode.body:
                            ch = chain_on(st, gnode.args.args[i].arg,
                                          depth + 1)
                            if ch:
                                return ch
        return None
    for n, (fs, _t) in facts.items():
        if isinstance(n, (ast.If, ast.For, ast.While, ast.Try, ast.With)):
            continue
        if not any(pol and norm(t) == 'isinstance(value, str)'
                   for t, pol in fs):
            continue
        ch = chain_on(n, 'value')
        if ch:
            str_chain = ch
            chain_stmt = n
    if str_chain is None:
        raise AnalysisError('to_wbem_uri: escape chain for str values not '
                            'found')
    r2.ob(True, 'escape-chain', {'writer_escape_chain': str_chain})
    # backslash must be escaped first
    ok = str_chain[0][0] == '\\' and all('\\' in b for a, b in str_chain)
    r2.ob(ok, 'escape-order')
    if not ok:
        rep.finding(r2, tw.qualname, repr(str_chain), 'escape-order', OBJ,
                    tw.node.lineno, 'backslash is not escaped before the '
                    'escapes that introduce backslashes')
    ip = regex_const(repo, tw, ast.Name(id='WBEM_URI_INSTANCEPATH_REGEXP',
                                        ctx=ast.Load()))
    kp = regex_const(repo, tw, ast.Name(id='WBEM_URI_KEYBINDINGS_REGEXP',
                                        ctx=ast.Load()))
    cp = regex_const(repo, tw, ast.Name(id='WBEM_URI_CLASSPATH_REGEXP',
                                        ctx=ast.Load()))
    if not (ip and kp and cp):
        raise AnalysisError('WBEM URI patterns not resolvable')
    ipc, kpc, cpc = (re.compile(p, f) for p, f in (ip, kp, cp))
    # the quote characters the escaped text is wrapped in: the constant
    # text appended just before / after it (a conditional expression or a
    # local holding one gives several)
    from ..flow import value_of as _vo
    delims = set()

    def consts_of(e):
        e = _vo(tw, e)
        if isinstance(e, ast.Constant) and isinstance(e.value, str):
            return {e.value}
        if isinstance(e, ast.IfExp):
            a, b = consts_of(e.body), consts_of(e.orelse)
            return (a | b) if a and b else set()
        return set()

    def block_of(stmts):
        for i, st in enumerate(stmts):
            if st is chain_stmt:
                return stmts, i
            for fld in ('body', 'orelse', 'finalbody'):
                sub = getattr(st, fld, None)
                if isinstance(sub, list) and sub and \
                        isinstance(sub[0], ast.stmt):
                    r_ = block_of(sub)
                    if r_:
                        return r_
        return None
    loc = block_of(tw.node.body)
    if loc:
        blk, i = loc
        for nb in (blk[i - 1] if i > 0 else None,
                   blk[i + 1] if i + 1 < len(blk) else None):
            if isinstance(nb, ast.Expr) and isinstance(nb.value, ast.Call) \
                    and isinstance(nb.value.func, ast.Attribute) and \
                    nb.value.func.attr == 'append' and nb.value.args:
                delims |= {c for c in consts_of(nb.value.args[0])
                           if len(c) == 1}
    if not delims:
        delims = {'"'}
        r2.notes.append('quote characters around the escaped key text not '
                        'evident; judged for the double quote')
    for dl, ch in [(d, c) for d in sorted(delims) for c in REP_CHARS]:
        for val in (ch, 'x' + ch + 'y'):
            r2.sites += 1
            uri = '/ns:Cls.k=%s%s%s' % (dl, apply_chain(str_chain, val), dl)
            m = ipc.match(uri)
            ok = bool(m) and bool(kpc.match(m.group(5)))
            if ok:
                # and the value scanned back is the value
                mm = re.match(r'^k=%s(.*)%s$' % (re.escape(dl),
                                                  re.escape(dl)),
                              m.group(5), re.S)
                ok = bool(mm) and re.sub(r'\\(.)', r'\1', mm.group(1),
                                         flags=re.S) == val
                # the quoted token must end where the printer ended it: an
                # unescaped delimiter inside cuts the value short
                tok = re.match(r'k=(%s(?:[^%s\\]|\\.)*%s)' % (
                    re.escape(dl), re.escape(dl), re.escape(dl)),
                    m.group(5), re.S)
                ok = ok and bool(tok) and tok.end() == len(m.group(5))
            r2.ob(ok, 'char:%s%r' % (dl, val), {'key_value': val, 'printed': uri,
                                        'accepted_by_parser_patterns': ok})
            if not ok:
                rep.finding(r2, tw.qualname, 'string key containing %r'
                            % ch, 'not-accepted', OBJ, tw.node.lineno,
                            'to_wbem_uri prints %r for a string key holding '
                            '%r, which the parser patterns (WBEM_URI_'
                            'INSTANCEPATH_REGEXP / WBEM_URI_KEYBINDINGS_'
                            'REGEXP) do not accept' % (uri, val))
    for host in ('server', 'server:5989', '[::1]', '[fe80::1]:5989',
                 'user@server', '10.1.2.3', 'my-host.example.com',
                 'my-host.example.com:5989'):
        r2.sites += 1
        uri = '//%s/root/cimv2:Cls' % host
        ok = bool(cpc.match(uri)) and cpc.match(uri).group(2) == host
        mi = ipc.match(uri + '.k=1')
        ok = ok and bool(mi) and mi.group(2) == host
        r2.ob(ok, 'host:' + host, {'host': host, 'accepted': ok})
        if not ok:
            rep.finding(r2, 'CIMClassName.to_wbem_uri', 'host %r' % host,
                        'host-not-accepted', OBJ, tw.node.lineno,
                        'host form %r is printed but not accepted by '
                        'WBEM_URI_CLASSPATH_REGEXP / WBEM_URI_INSTANCEPATH_'
                        'REGEXP' % host)
    for ns in ('root', 'root/cimv2', 'a/b/c', 'root/PG_InterOp'):
        r2.sites += 1
        uri = '/%s:Cls' % ns
        ok = bool(cpc.match(uri)) and cpc.match(uri).group(3) == ns
        r2.ob(ok, 'ns:' + ns, {'namespace': ns, 'accepted': ok})
        if not ok:
            rep.finding(r2, 'CIMClassName.to_wbem_uri', 'namespace %r' % ns,
                        'ns-not-accepted', OBJ, tw.node.lineno,
                        'namespace %r is printed but not accepted by '
                        'WBEM_URI_CLASSPATH_REGEXP' % ns)

    # ---- R3 ---------------------------------------------------------------
    r3.functions.add(tw.fq)
    for n in walk_no_nested(tw.node):
        if isinstance(n, ast.Call) and dotted(n.func) in ('repr', 'str') and \
                n.args and norm(n.args[0]) == 'value':
            st = None
            for s, (fs, _) in facts.items():
                if any(x is n for x in ast.walk(s)) and not isinstance(
                        s, (ast.If, ast.For, ast.While, ast.Try)):
                    st = s
                    types = []
                    for t, pol in fs:
                        if pol and isinstance(t, ast.Call) and \
                                dotted(t.func) == 'isinstance' and \
                                norm(t.args[0]) == 'value':
                            tt = t.args[1]
                            types = [norm(e) for e in (
                                tt.elts if isinstance(tt, ast.Tuple)
                                else [tt])]
            if st is None:
                continue
            r3.sites += 1
            which = dotted(n.func)
            dunder = '__repr__' if which == 'repr' else '__str__'
            for tn in types:
                c = repo.find_class(tn)
                if c is None:
                    r3.ob(True, '%s(%s)' % (which, tn),
                          {'printer': which, 'type': tn, 'builtin': True})
                    continue
                m = c.find_method(dunder)
                bad = m is not None and which == 'repr'
                r3.ob(not bad, '%s(%s)' % (which, tn),
                      {'printer': which, 'type': tn,
                       'override': m.qualname if m else None})
                if bad:
                    rep.finding(r3, tw.qualname, '%s(value) for %s'
                                % (which, tn), 'debug-repr', OBJ, n.lineno,
                                '%s overrides __repr__ with a debug format '
                                '(%s): the printed key value is not a '
                                'DSP0004 literal and cannot be parsed back'
                                % (tn, m.qualname))
    rv = regex_const(repo, repo.func(UTL, '_realValue_to_float'),
                     ast.Name(id='REAL_VALUE', ctx=ast.Load()))
    if rv is None:
        raise AnalysisError('REAL_VALUE not resolvable')
    rvc = re.compile(rv[0], rv[1])
    for fl in REP_FLOATS:
        text = repr(fl)
        r3.sites += 1
        ok = bool(rvc.match(text))
        r3.ob(ok, 'float:' + text, {'float_repr': text,
                                    'in_REAL_VALUE': ok})
        if not ok:
            form = 'exponent form without a fraction' if 'e' in text and \
                '.' not in text else text
            rep.finding(r3, tw.qualname, 'repr(float) form: %s' % form,
                        'float-form', OBJ, tw.node.lineno,
                        'a real key is printed as %r which REAL_VALUE (the '
                        'parser\'s realValue pattern) does not accept'
                        % text)

    # ---- R4 / R5 -----------------------------------------------------------
    for cls in (inm, cnm):
        f = cls.methods.get('to_wbem_uri')
        if f is None:
            raise AnalysisError('%s.to_wbem_uri vanished' % cls.name)
        r4.functions.add(f.fq)
        r4.sites += 1
        SRC = ('self.host', 'self.namespace', 'self.classname')
        # locals derived from the name-typed attributes (pieces obtained by
        # partition / split / slicing / concatenation are still name text)
        def data_nodes(e):
            """sub-expressions whose *text* can flow into the value of e:
            comparisons (is None, ==, in) and the tests of conditional
            expressions only yield truth values"""
            if isinstance(e, ast.Compare):
                return
            yield e
            if isinstance(e, ast.IfExp):
                yield from data_nodes(e.body)
                yield from data_nodes(e.orelse)
                return
            if isinstance(e, ast.BoolOp):
                # `a or b` can evaluate to either operand
                for v in e.values:
                    yield from data_nodes(v)
                return
            for c in ast.iter_child_nodes(e):
                if isinstance(c, ast.expr):
                    yield from data_nodes(c)
        derived = {}
        changed = True
        while changed:
            changed = False
            for n in walk_no_nested(f.node):
                if not isinstance(n, ast.Assign):
                    continue
                src = None
                for x in data_nodes(n.value):
                    if isinstance(x, ast.Attribute) and dotted(x) in SRC:
                        src = dotted(x)
                    elif isinstance(x, ast.Name) and x.id in derived:
                        src = derived[x.id]
                if src is None:
                    continue
                # a value that went through case() is folded, not raw
                if isinstance(n.value, ast.Call) and \
                        dotted(n.value.func) == 'case':
                    continue
                for t in n.targets:
                    for y in (t.elts if isinstance(t, ast.Tuple) else [t]):
                        if isinstance(y, ast.Name) and y.id not in derived \
                                and y.id != 'ret':
                            derived[y.id] = src
                            changed = True

        def raw_occurrences(a):
            out = []

            def rec(e, folded):
                if isinstance(e, ast.Call) and dotted(e.func) == 'case':
                    for x in e.args:
                        rec(x, True)
                    return
                if isinstance(e, ast.Attribute) and dotted(e) in SRC:
                    if not folded:
                        out.append(dotted(e))
                    return
                if isinstance(e, ast.Name) and e.id in derived:
                    if not folded:
                        out.append('%s (a piece of %s)' % (e.id,
                                                           derived[e.id]))
                    return
                if isinstance(e, ast.Compare):
                    return              # a truth value, not name text
                if isinstance(e, ast.IfExp):
                    rec(e.body, folded)
                    rec(e.orelse, folded)
                    return
                for c in ast.iter_child_nodes(e):
                    rec(c, folded)
            rec(a, False)
            return out
        for n in walk_no_nested(f.node):
            if isinstance(n, ast.Call) and dotted(n.func) == 'ret.append' \
                    and n.args:
                a = n.args[0]
                mentions = [x for x in data_nodes(a)
                            if (isinstance(x, ast.Attribute) and
                                dotted(x) in SRC) or
                            (isinstance(x, ast.Name) and x.id in derived)]
                if not mentions:
                    continue
                raw = raw_occurrences(a)
                ok = not raw
                r4.ob(ok, '%s:%s' % (cls.name, norm(a)),
                      {'class': cls.name, 'appended_as': norm(a),
                       'unfolded_parts': raw})
                if not ok:
                    rep.finding(r4, f.qualname, norm(n), 'not-folded', OBJ,
                                n.lineno, '%s reaches the URI without going '
                                'through case(): canonical URIs of equal '
                                'paths differ (== ignores the case of the '
                                'whole attribute)' % ', '.join(raw))
        case = f.nested.get('case')
        if case is None:
            raise AnalysisError('%s.to_wbem_uri: case() vanished' % cls.name)
        r5.sites += 1
        ok = _case_folds_exactly_for_canonical(case, f)
        r5.ob(ok, cls.name + ':case', {'case': norm(case.node, 200)})
        if not ok:
            rep.finding(r5, case.qualname, 'case()', 'case-shape', OBJ,
                        case.node.lineno, 'case() does not lower-case '
                        'exactly for the canonical format')
    f = inm.methods['to_wbem_uri']
    cs = f.nested.get('case_sorted')
    if cs is not None:
        ok = _sorted_after_folding(
            cs.body[0].value if len(cs.body) == 1 and
            isinstance(cs.body[0], ast.Return) else None, ('keys',))
        r5.ob(ok, 'case_sorted', {'case_sorted': norm(cs.node, 200)})
        if not ok:
            rep.finding(r5, cs.qualname, 'case_sorted()', 'sort-shape', OBJ,
                        cs.node.lineno, 'keys are not sorted after case '
                        'folding')
    from ..flow import value_of as _vo4
    loops = [(n, _vo4(f, n.iter)) for n in walk_no_nested(f.node)
             if isinstance(n, ast.For)]
    loops = [(n, it) for n, it in loops if 'keybindings' in norm(it)]
    ok = len(loops) == 1 and isinstance(loops[0][1], ast.Call) and \
        ((cs is not None and
          dotted(loops[0][1].func) == 'case_sorted') or
         _sorted_after_folding(loops[0][1], ()))
    r4.ob(ok, 'keys-via-case_sorted')
    if not ok:
        rep.finding(r4, f.qualname, 'for key in ...', 'keys-order', OBJ,
                    f.node.lineno, 'keybindings are not iterated via '
                    'case_sorted(): key order/case leaks into the canonical '
                    'URI')
    recs = [n for n in walk_no_nested(f.node) if isinstance(n, ast.Call) and
            isinstance(n.func, ast.Attribute) and
            n.func.attr == 'to_wbem_uri']
    ok = bool(recs) and all(any(k.arg == 'format' and
                                norm(k.value) == 'format'
                                for k in c.keywords) or
                            (c.args and norm(c.args[0]) == 'format')
                            for c in recs)
    r4.ob(ok, 'nested-format')
    if not ok:
        rep.finding(r4, f.qualname, 'value.to_wbem_uri(...)',
                    'nested-format', OBJ, f.node.lineno,
                    'reference keys are not printed in the requested format '
                    '(canonical URIs of nested paths keep their case)')


def _mandatory_literals(func):
    """constant strings that to_wbem_uri() appends to its result on every
    path (outside of loops); None if the paths cannot be enumerated"""
    from ..paths import return_paths
    paths = return_paths(func, inline=False)
    if not paths:
        return None
    common = None
    for p in paths:
        lits = set()
        for st in p.effects:
            if isinstance(st, ast.Expr) and isinstance(st.value, ast.Call) \
                    and isinstance(st.value.func, ast.Attribute) and \
                    st.value.func.attr == 'append' and st.value.args:
                s = const_str(st.value.args[0])
                if s is not None:
                    lits.add(s)
        common = lits if common is None else common & lits
    return common or set()


def _content_tests(test, pol, derived):
    """[(constant, text)] for tests of the form  C in X / X.startswith(C) /
    X.endswith(C) / X.find(C) ... / X.count(C) ... / re.match(P, X) that a
    fact (test is pol) places on a string variable of `derived`"""
    out = []
    for n in ast.walk(test):
        if isinstance(n, ast.Compare) and len(n.ops) == 1 and \
                isinstance(n.ops[0], (ast.In, ast.NotIn)) and \
                isinstance(n.comparators[0], ast.Name) and \
                n.comparators[0].id in derived:
            out.append((const_str(n.left), norm(n)))
        elif isinstance(n, ast.Call) and isinstance(n.func, ast.Attribute) \
                and isinstance(n.func.value, ast.Name) and \
                n.func.value.id in derived and \
                n.func.attr in ('startswith', 'endswith', 'find', 'index',
                                'count', 'partition', 'isalnum', 'isalpha',
                                'isdigit', 'isidentifier'):
            out.append((const_str(n.args[0]) if n.args else None, norm(n)))
        elif isinstance(n, ast.Call) and (dotted(n.func) or '').split(
                '.')[-1] in ('match', 'search', 'fullmatch') and \
                any(isinstance(a, ast.Name) and a.id in derived
                    for a in n.args):
            out.append((None, norm(n)))
    return out


def nested_reference_rule(repo, rep):
    """C07.R6: a double-quoted key value is handed to the instance path
    parser whatever it looks like.  The printer omits '//host', '/',
    'namespace' and ':' depending on host/namespace/format, so the only
    literal every printed path contains is what to_wbem_uri() appends on all
    of its paths; a syntactic pre-check for anything else makes the parser
    treat some printed reference keys as plain strings."""
    from ..cfg import stmt_facts, GuardWalker
    r6 = rep.rule('C07.R6', 'quoted key values reach the reference parser '
                  'without a content pre-check the printer does not '
                  'guarantee')
    inm = repo.cls(OBJ, 'CIMInstanceName')
    kb = inm.methods.get('_kbstr_to_cimval')
    pr = inm.methods.get('to_wbem_uri')
    if kb is None or pr is None:
        raise AnalysisError('CIMInstanceName._kbstr_to_cimval / to_wbem_uri '
                            'vanished')
    r6.functions.update([kb.fq, pr.fq])
    mand = _mandatory_literals(pr)
    from ..inline import Flat
    kb = Flat(kb, keep=('from_wbem_uri',))
    sf = stmt_facts(kb.node)
    calls = []
    for st, (facts, _t) in sf.items():
        if isinstance(st, (ast.If, ast.Try, ast.For, ast.While, ast.With)):
            continue
        for c in ast.walk(st):
            if isinstance(c, ast.Call) and \
                    (dotted(c.func) or '').endswith('from_wbem_uri'):
                calls.append((st, c, facts))
    if not calls:
        raise AnalysisError('_kbstr_to_cimval: no call of from_wbem_uri')
    # variables the parsed string derives from
    for st, c, facts in calls:
        r6.sites += 1
        derived = set()
        work = [a.id for a in c.args if isinstance(a, ast.Name)]
        while work:
            v = work.pop()
            if v in derived:
                continue
            derived.add(v)
            for n in walk_no_nested(kb.node):
                if isinstance(n, ast.Assign) and any(
                        isinstance(t, ast.Name) and t.id == v
                        for t in n.targets):
                    work += [x.id for x in ast.walk(n.value)
                             if isinstance(x, ast.Name)]
        bad = []
        for t, pol in facts:
            for lit, text in _content_tests(t, pol, derived):
                if lit is not None and mand is not None and pol and \
                        all(ch in ''.join(mand) for ch in lit) and \
                        any(lit in m for m in mand):
                    continue        # the printer always emits it
                bad.append((lit, text, pol))
        r6.ob(not bad, 'from_wbem_uri@%s' % kb.qualname,
              {'guards': [norm(t, 60) for t, _ in facts],
               'printer_mandatory_literals': sorted(mand or [])})
        for lit, text, pol in bad:
            rep.finding(r6, kb.qualname, text, 'content-precheck', OBJ,
                        c.lineno,
                        'the reference parser is only tried when %s is %s, '
                        'but to_wbem_uri() guarantees only the literals %s '
                        'in a printed path (host, namespace, "/" and ":" '
                        'are omitted depending on host/namespace/format): a '
                        'reference key printed without that text comes back '
                        'as a plain string' % (text, pol, sorted(mand or [])))
    # positive control: the guard recogniser must see a containment test
    probe = ast.parse("if ':' in cimval:\n    pass").body[0].test
    if not _content_tests(probe, True, {'cimval'}):
        raise AnalysisError('C07.R6 guard recogniser broken')


def keybinding_tokeniser_rule(repo, rep):
    """C07.R7: from_wbem_uri() validates the keybindings with a pattern built
    from the quote-aware value pattern _KB_VAL and then cuts the repeated
    group into `name=value` pieces.  The cutting step must use the same
    value pattern: a separator that does not know about quoting (a split at
    commas, a look-ahead for `,name=`) cuts inside quoted values, so a URI
    that to_wbem_uri() printed - a string key containing `,x=`, or a
    reference key whose target has two keys - is rejected or mis-parsed."""
    from ..model import fold_const, NotConst, module_env
    r7 = rep.rule('C07.R7', 'keybindings are cut with the quote-aware value '
                  'pattern that validated them')
    mod = repo.module(OBJ)
    inm = repo.cls(OBJ, 'CIMInstanceName')
    f = inm.methods.get('from_wbem_uri')
    if f is None:
        raise AnalysisError('CIMInstanceName.from_wbem_uri vanished')
    r7.functions.add(f.fq)
    try:
        kbval = fold_const(mod.consts['_KB_VAL'], module_env(repo, mod))
    except (KeyError, NotConst):
        kbval = None
    if not kbval:
        raise AnalysisError('_KB_VAL not resolvable')
    def from_group(e, depth=0):
        """the expression is (a local bound to) a group of a match"""
        for x in ast.walk(e):
            if isinstance(x, ast.Call) and \
                    isinstance(x.func, ast.Attribute) and \
                    x.func.attr == 'group':
                return True
            if isinstance(x, ast.Name) and depth < 2:
                for a in walk_no_nested(f.node):
                    if isinstance(a, ast.Assign) and len(a.targets) == 1 and \
                            isinstance(a.targets[0], ast.Name) and \
                            a.targets[0].id == x.id and \
                            from_group(a.value, depth + 1):
                        return True
        return False
    # which local holds the match of the keybindings pattern
    cut_calls = []
    for c in walk_no_nested(f.node):
        if not isinstance(c, ast.Call) or \
                not isinstance(c.func, ast.Attribute):
            continue
        if c.func.attr in ('findall', 'finditer', 'split', 'sub', 'scanner') \
                and c.args and from_group(c.args[-1]):
            cut_calls.append(c)
        elif c.func.attr in ('split', 'partition', 'rsplit') and \
                isinstance(c.func.value, ast.Call) and \
                isinstance(c.func.value.func, ast.Attribute) and \
                c.func.value.func.attr == 'group':
            cut_calls.append(c)
    if not cut_calls:
        raise AnalysisError('from_wbem_uri: the step that cuts the repeated '
                            'keybinding group was not found')
    for c in cut_calls:
        r7.sites += 1
        pat = None
        recv = c.func.value
        if isinstance(recv, ast.Name):
            rc = regex_const(repo, f, recv)
            pat = rc[0] if rc else None
        elif dotted(recv) == 're' and c.args:
            rc = regex_const(repo, f, c.args[0])
            pat = rc[0] if rc else None
        ok = pat is not None and kbval in pat and \
            c.func.attr in ('findall', 'finditer')
        r7.ob(ok, norm(c, 60), {'pattern': pat, 'method': c.func.attr})
        if not ok:
            rep.finding(r7, f.qualname, norm(c, 70), 'quote-unaware-cut', OBJ,
                        c.lineno,
                        'the repeated keybinding group is cut with %s(%s), '
                        'which does not contain the quote-aware value '
                        'pattern _KB_VAL the validation used: a quoted '
                        'value containing `,name=` (a string key, or a '
                        'reference key whose target has several keys) is '
                        'cut in the middle and the URI pywbem itself '
                        'printed is rejected'
                        % (c.func.attr, repr(pat) if pat else norm(recv)))


def real_key_text_rule(repo, rep):
    """C07.R8: a real key value is printed with the text that determines it.
    to_wbem_uri() prints real keys with str(value), i.e. CIMFloat.__str__();
    both must yield the complete round-trip text of the number (repr, or a
    conversion with >= 17 significant digits).  A conversion with fewer
    digits (`.15g`) prints 0.1+0.2 as 0.3: the parsed path has another key
    value and no longer equals (or finds) the original."""
    from ..cfg import stmt_facts
    from ..inline import Flat
    from .. import realtext
    r8 = rep.rule('C07.R8', 'real key values are printed with their exact '
                  '(round-trip) text')
    TYPES = 'pywbem/_cim_types.py'
    cf = repo.cls(TYPES, 'CIMFloat')
    n = 0
    for mn in ('__str__',):
        m = cf.methods.get(mn)
        if m is None:
            # float.__str__ is inherited: exact
            continue
        r8.functions.add(m.fq)
        for pth, verdict, detail in realtext.analyse(Flat(m), {'self'}, 17):
            n += 1
            r8.sites += 1
            if verdict == 'undecided':
                r8.undecided.append('%s: %s' % (m.qualname, detail))
                continue
            r8.ob(verdict == 'ok', '%s|%s' % (m.qualname, detail))
            if verdict != 'ok':
                rep.finding(r8, m.qualname, 'return %s' % detail, verdict,
                            TYPES, getattr(pth.ret_stmt, 'lineno',
                                           m.node.lineno),
                            'the string form of a real value is not its '
                            'exact text (%s): a real key printed by '
                            'to_wbem_uri() is parsed back as another value'
                            % verdict)
    inm = repo.cls(OBJ, 'CIMInstanceName')
    pr = inm.methods.get('to_wbem_uri')
    if pr is None:
        raise AnalysisError('CIMInstanceName.to_wbem_uri vanished')
    r8.functions.add(pr.fq)
    for st, (facts, _t) in stmt_facts(pr.node).items():
        real = None
        for t, pol in facts:
            if pol and isinstance(t, ast.Call) and \
                    dotted(t.func) == 'isinstance' and \
                    isinstance(t.args[0], ast.Name) and \
                    'CIMFloat' in norm(t.args[1]):
                real = t.args[0].id
        if real is None:
            continue
        if isinstance(st, ast.Expr) and isinstance(st.value, ast.Call) and \
                isinstance(st.value.func, ast.Attribute) and \
                st.value.func.attr in ('append', 'extend') and st.value.args:
            printed = st.value.args[0]
        elif isinstance(st, ast.Assign) and len(st.targets) == 1 and \
                isinstance(st.targets[0], ast.Name) and any(
                    isinstance(x, ast.Name) and x.id == real
                    for x in ast.walk(st.value)):
            # the text is put into a local that is appended later
            printed = st.value
        else:
            continue
        n += 1
        r8.sites += 1
        it = realtext._Interp({real}, 17)
        v = it.ev(printed)
        if v is None:
            r8.undecided.append('to_wbem_uri: %s' % norm(st, 50))
            continue
        ok = v[0] == 'text' and v[1]
        r8.ob(ok, 'to_wbem_uri|%s' % norm(st, 50))
        if not ok:
            rep.finding(r8, pr.qualname, norm(st, 60), 'real-key-text', OBJ,
                        st.lineno,
                        'the text printed for a real key is not the '
                        'complete round-trip text of the value (%s)'
                        % (v,))
    if n < 2:
        raise AnalysisError('C07.R8: real key printing sites not found')


def _prefix_tokens(func, fmt, host_set, ns_set):
    """the tokens to_wbem_uri() appends to its result list up to and
    including the class name, for one abstract case (format constant, host /
    namespace present or None).  The control flow of that part depends only
    on these three facts, so the evaluation is exact; ('?', text) when a
    condition or an appended expression is not understood."""
    from ..constprop import evaluate, UNKNOWN
    import copy as _copy

    class Abst(ast.NodeTransformer):
        def visit_Attribute(self, n):
            if isinstance(n.value, ast.Name) and n.value.id == 'self' and \
                    n.attr in ('host', 'namespace', '_host', '_namespace'):
                return ast.copy_location(
                    ast.Name(id='__' + n.attr.lstrip('_'), ctx=ast.Load()),
                    n)
            return self.generic_visit(n)

    def look(name):
        if name == 'format':
            return fmt
        if name == '__host':
            return 'H' if host_set else None
        if name == '__namespace':
            return 'N' if ns_set else None
        return UNKNOWN
    toks = []
    lst = [None]

    def token(e):
        if isinstance(e, ast.Constant) and isinstance(e.value, str):
            return ('lit', e.value)
        txt = norm(e, 80)
        for fld in ('host', 'namespace', 'classname'):
            if 'self.' + fld in txt or 'self._' + fld in txt:
                return (fld, None)
        return ('?', txt)

    def run(stmts):
        for st in stmts:
            if isinstance(st, (ast.FunctionDef, ast.Pass)) or (
                    isinstance(st, ast.Expr) and
                    isinstance(st.value, ast.Constant)):
                continue
            if isinstance(st, ast.Raise):
                return 'raise'
            if isinstance(st, ast.If):
                v = evaluate(Abst().visit(_copy.deepcopy(st.test)), look)
                if v is UNKNOWN:
                    # a condition on something else: it must not touch the
                    # result list
                    if any(isinstance(x, ast.Name) and x.id == lst[0]
                           for b in st.body + st.orelse
                           for x in ast.walk(b)):
                        toks.append(('?', norm(st.test, 60)))
                        return 'stop'
                    continue
                r = run(st.body if v else st.orelse)
                if r:
                    return r
                continue
            if isinstance(st, ast.Assign) and len(st.targets) == 1 and \
                    isinstance(st.targets[0], ast.Name) and \
                    isinstance(st.value, ast.List):
                if lst[0] is None:
                    lst[0] = st.targets[0].id
                    for e in st.value.elts:
                        toks.append(token(e))
                continue
            if isinstance(st, ast.Expr) and isinstance(st.value, ast.Call) and \
                    isinstance(st.value.func, ast.Attribute) and \
                    st.value.func.attr == 'append' and \
                    isinstance(st.value.func.value, ast.Name) and \
                    st.value.func.value.id == lst[0] and st.value.args:
                t = token(st.value.args[0])
                toks.append(t)
                if t[0] in ('classname', '?'):
                    return 'stop'
                continue
            if lst[0] is not None and any(
                    isinstance(x, ast.Name) and x.id == lst[0]
                    for x in ast.walk(st)):
                toks.append(('?', norm(st, 60)))
                return 'stop'
        return None
    r = run(func.body)
    if r == 'raise':
        return None
    return toks


def printed_prefix_rule(repo, rep):
    """C07.R9: for every format x (host present?) x (namespace present?) the
    part of the URI that to_wbem_uri() prints before the keybindings is
    matched by the parser's own pattern, and the pattern's groups give back
    the host, namespace and class name that were printed.  That part of the
    printer branches only on these three facts, so the 16 cases per class
    are evaluated exactly (no sampling of values other than one
    representative host / namespace / class name)."""
    from ..model import module_env
    r9 = rep.rule('C07.R9', 'the printed scheme/host/namespace/class prefix is '
                  'in the parser language for every format and every '
                  'combination of present components')
    mod = repo.module(OBJ)
    SAMPLE = {'host': 'myhost', 'namespace': 'root/cimv2',
              'classname': 'cim_foo'}
    for cn, rx_name, tail in (('CIMClassName', 'WBEM_URI_CLASSPATH_REGEXP',
                               ''),
                              ('CIMInstanceName',
                               'WBEM_URI_INSTANCEPATH_REGEXP', '.k=1')):
        cls = repo.cls(OBJ, cn)
        f = cls.methods.get('to_wbem_uri')
        if f is None:
            raise AnalysisError('%s.to_wbem_uri vanished' % cn)
        r9.functions.add(f.fq)
        rc = regex_const(repo, f, ast.Name(id=rx_name, ctx=ast.Load()))
        if rc is None:
            raise AnalysisError('%s not resolvable' % rx_name)
        pat = re.compile(rc[0], rc[1])
        formats = None
        for n in walk_no_nested(f.node):
            if isinstance(n, ast.Compare) and len(n.ops) == 1 and \
                    isinstance(n.ops[0], ast.NotIn) and \
                    norm(n.left) == 'format' and \
                    isinstance(n.comparators[0], (ast.Tuple, ast.List)):
                fs_ = [const_str(e) for e in n.comparators[0].elts]
                if formats is None or len(fs_) > len(formats):
                    formats = fs_
        if not formats or None in formats:
            raise AnalysisError('%s.to_wbem_uri: format list not found' % cn)
        for fmt in formats:
            for host_set in (False, True):
                for ns_set in (False, True):
                    toks = _prefix_tokens(f, fmt, host_set, ns_set)
                    if toks is None:
                        continue
                    r9.sites += 1
                    case = '%s|%s|host=%s|namespace=%s' % (
                        cn, fmt, 'set' if host_set else 'None',
                        'set' if ns_set else 'None')
                    bad = [t for t in toks if t[0] == '?']
                    if bad or not toks or toks[-1][0] != 'classname':
                        r9.undecided.append('%s: %s' % (case, bad[:1]))
                        continue
                    uri = ''.join(t[1] if t[0] == 'lit' else SAMPLE[t[0]]
                                  for t in toks) + tail
                    m = pat.match(uri)
                    printed_host = any(t[0] == 'host' for t in toks)
                    exp = (SAMPLE['host'] if printed_host else None,
                           SAMPLE['namespace'] if ns_set else None,
                           SAMPLE['classname'])
                    got = (m.group(2), m.group(3), m.group(4)) if m else None
                    ok = m is not None and got == exp
                    r9.ob(ok, case, {'printed': uri, 'parsed': got})
                    if not ok:
                        rep.finding(
                            r9, f.qualname, '%s host=%s namespace=%s'
                            % (fmt, 'set' if host_set else 'None',
                               'set' if ns_set else 'None'),
                            'prefix-not-parsed', OBJ, f.node.lineno,
                            'in format %r with host %s and namespace %s '
                            'to_wbem_uri() prints %r, which %s %s: the '
                            'printed path is rejected by from_wbem_uri() or '
                            'comes back with other components'
                            % (fmt, 'set' if host_set else 'None',
                               'set' if ns_set else 'None', uri, rx_name,
                               'does not match' if m is None else
                               'splits into host/namespace/class %r instead '
                               'of %r' % (got, exp)))
    if r9.sites < 24:
        raise AnalysisError('C07.R9: only %d prefix cases evaluated'
                            % r9.sites)
