"""C04 - operations over CIM-XML equal the same operations done directly.

Decides: what the client marshals is what the server-side adapter
unmarshals (parameter-name tables agree), None is omitted and everything
else is sent, the default namespace is applied, and the operation name on
the wire is the method's own name.
"""
import ast
import re

from ..model import (AnalysisError, walk_no_nested, dotted, const_str, norm, eqsrc,
                     kwarg)
from ..ops import operations, OPS, CONTROL_KW, last_assign_before

EXPLANATION = (
    "Writer/reader table agreement between the 32 intrinsic operations of "
    "WBEMConnection and the 32 _imeth_* adapters of the mock server: the set "
    "of IPARAMVALUE names the client passes to _imethodcall equals the set "
    "of keys the adapter reads from its params dict (required keys must be "
    "always sent), every key literal is a plain identifier, the adapter "
    "hands each key to the provider under the same name; _imethodcall/"
    "_iexportcall build the parameter list from all of params.items() with "
    "exactly the filter `is not None`; _methodcall puts every Params entry "
    "and keyword into the PARAMVALUE list; every operation derives the "
    "namespace argument through a helper that ends in the default-namespace "
    "fallback; the method_name literal is the Python method name and is the "
    "variable passed as the operation name. This decides the marshalling "
    "tables, not the equality of results of the two execution paths "
    "(differential execution is a different technique family).")
ASSUMPTIONS = [
    "the mock adapter is the reference for what a server reads (it is the "
    "object-level entry point named by the property's anchors)",
]

MOCK = 'pywbem_mock/_wbemconnection_mock.py'
OBJ = 'pywbem/_cim_obj.py'
NS_HELPERS = ('_iparam_namespace_from_namespace',
              '_iparam_namespace_from_objectname')


def adapter_keys(func, pname='params', depth=0):
    """(required, optional, problems) key names read from the request
    parameter dictionary: literal keys, keys taken from a loop over a
    literal tuple of names, and what private helpers read that are handed
    the dictionary"""
    from .c02 import _loop_constants
    from ..paths import _helper_of
    req, opt, odd = {}, {}, []

    def keys_of(knode):
        k = const_str(knode)
        if k is not None:
            return [k]
        if isinstance(knode, ast.Name):
            vals = _loop_constants(func, knode.id)
            if vals and all(isinstance(v, str) for v in vals):
                return list(vals)
        return None
    for n in walk_no_nested(func.node):
        if isinstance(n, ast.Subscript) and isinstance(n.value, ast.Name) \
                and n.value.id == pname:
            ks = keys_of(n.slice)
            if ks is None:
                odd.append(n)
            else:
                for k in ks:
                    req[k] = n
        elif isinstance(n, ast.Call) and dotted(n.func) == pname + '.get' \
                and n.args:
            ks = keys_of(n.args[0])
            if ks is None:
                odd.append(n)
            else:
                for k in ks:
                    opt[k] = n
        elif isinstance(n, ast.Call) and depth < 2 and any(
                isinstance(a, ast.Name) and a.id == pname for a in n.args):
            h = _helper_of(func, n)
            if h is not None:
                hp = [p for p in h.params if p not in ('self', 'cls')]
                for i, a in enumerate(n.args):
                    if isinstance(a, ast.Name) and a.id == pname and \
                            i < len(hp):
                        r2_, o2_, d2_ = adapter_keys(h, hp[i], depth + 1)
                        req.update(r2_)
                        opt.update(o2_)
                        odd += d2_
    return req, opt, odd


def call_keywords(func, call):
    """keywords of a call with `**name` expanded when `name` is a local
    bound once to a dict literal with constant string keys that is not
    changed afterwards (item stores with constant keys are added).  An
    unexpandable `**x` is kept as a keyword with arg None."""
    out = []
    for k in call.keywords:
        if k.arg is not None:
            out.append(k)
            continue
        exp = None
        if isinstance(k.value, ast.Dict):
            dct = k.value
            nm = None
        elif isinstance(k.value, ast.Name):
            nm = k.value.id
            defs = [n for n in walk_no_nested(func.node)
                    if isinstance(n, ast.Assign) and len(n.targets) == 1 and
                    isinstance(n.targets[0], ast.Name) and
                    n.targets[0].id == nm]
            dct = defs[0].value if len(defs) == 1 and \
                isinstance(defs[0].value, ast.Dict) else None
        else:
            dct, nm = None, None
        if dct is not None and all(
                kk is not None and const_str(kk) is not None
                for kk in dct.keys):
            exp = [ast.copy_location(
                ast.keyword(arg=const_str(kk), value=vv), vv)
                for kk, vv in zip(dct.keys, dct.values)]
            if nm is not None:
                for n in walk_no_nested(func.node):
                    # other uses that can change the dict
                    if isinstance(n, ast.Subscript) and \
                            isinstance(n.value, ast.Name) and \
                            n.value.id == nm and \
                            isinstance(n.ctx, (ast.Store, ast.Del)):
                        key = const_str(n.slice)
                        par = None
                        if key is None or isinstance(n.ctx, ast.Del):
                            exp = None
                            break
                        for a in walk_no_nested(func.node):
                            if isinstance(a, ast.Assign) and \
                                    any(t is n for t in a.targets):
                                par = a
                        if par is None:
                            exp = None
                            break
                        exp.append(ast.copy_location(
                            ast.keyword(arg=key, value=par.value), par))
                    elif isinstance(n, ast.Call) and \
                            isinstance(n.func, ast.Attribute) and \
                            isinstance(n.func.value, ast.Name) and \
                            n.func.value.id == nm and \
                            n.func.attr in ('update', 'pop', 'popitem',
                                            'clear', 'setdefault'):
                        exp = None
                        break
        if exp is None:
            out.append(k)
        else:
            out += exp
    return out


def forwarded_names(func):
    """[(keyword passed to the provider, key read, node)] for
    provider-call keywords whose value reads params."""
    out = []
    for c in walk_no_nested(func.node):
        if not isinstance(c, ast.Call):
            continue
        for k in c.keywords:
            if k.arg is None:
                continue
            for n in ast.walk(k.value):
                key = None
                if isinstance(n, ast.Subscript) and \
                        isinstance(n.value, ast.Name) and \
                        n.value.id == 'params':
                    key = const_str(n.slice)
                elif isinstance(n, ast.Call) and \
                        dotted(n.func) == 'params.get' and n.args:
                    key = const_str(n.args[0])
                if key is not None:
                    out.append((k.arg, key, c))
    return out


def run(repo, rep, tier):
    explicit_namespace_wins(repo, rep, 'C04.R8')
    twin_target_normalisation(repo, rep)
    iparam_typed_by_name(repo, rep, operations(repo))
    from .c13 import adapter_keys_agree
    adapter_keys_agree(repo, rep, 'C04.R11', lambda op: True, 100)
    unembedding_by_attribute_only(repo, rep)
    path_attached_after_properties(repo, rep)
    sequence_types_agree(repo, rep)
    from .c06 import real_shapes_rule
    real_shapes_rule(repo, rep, rep.rule(
        'C04.R15', 'real values are written in a form the parser of the '
        'other side reads back'))
    r1 = rep.rule('C04.R1', 'client IPARAMVALUE names = keys read by the '
                  'server-side adapter')
    r2 = rep.rule('C04.R2', 'None is omitted, everything else is sent')
    r3 = rep.rule('C04.R3', 'default namespace applied on every operation')
    r5 = rep.rule('C04.R5', 'operation name on the wire = method name = '
                  'adapter suffix')
    r6 = rep.rule('C04.R6', 'array method parameters are encoded item by '
                  'item with the scalar encoder')
    r4 = rep.rule('C04.R4', 'parameter values are normalised and the '
                  'server-side parser accepts every element they become')

    ops = operations(repo)
    conn = repo.cls(OPS, 'WBEMConnection')
    mock = repo.cls(MOCK, 'FakedWBEMConnection')
    adapters = {n[len('_imeth_'):]: f for n, f in mock.methods.items()
                if n.startswith('_imeth_')}
    # dynamic dispatch idiom must still be there
    mi = mock.methods.get('_mock_imethodcall')
    if mi is None:
        raise AnalysisError('_mock_imethodcall vanished')
    idiom = any(isinstance(n, ast.BinOp) and const_str(n.left) == '_imeth_'
                for n in walk_no_nested(mi.node)) and \
        any(isinstance(n, ast.Call) and dotted(n.func) == 'getattr'
            for n in walk_no_nested(mi.node))
    if not idiom:
        raise AnalysisError("_mock_imethodcall no longer dispatches via "
                            "getattr(self, '_imeth_' + methodname)")

    seen_ops = set()
    for op in ops:
        f = op.func
        env = op.envelope
        # ---- R5 ----
        r5.sites += 1
        r5.functions.add(f.fq)
        opname = op.method_name
        if opname is None and env == '_methodcall' and op.start_timer and \
                op.start_timer[0].args:
            # InvokeMethod (family exception): no method_name variable, the
            # extrinsic method name is the user's; its own name appears as
            # the start_timer literal
            opname = const_str(op.start_timer[0].args[0])
        ok = opname == f.name
        r5.ob(ok, f.name + ':literal', {'method': f.name,
                                        'method_name': opname})
        if not ok:
            rep.finding(r5, f.qualname, 'method_name = %r' % opname,
                        'name-literal', OPS,
                        (op.method_name_node or f.node).lineno,
                        'the operation name sent on the wire is not the '
                        'name of the operation method')
        for c in op.envelope_calls:
            first = c.args[0] if c.args else kwarg(c, 'methodname')
            if env == '_methodcall':
                # InvokeMethod passes the user's MethodName
                continue
            ok = isinstance(first, ast.Name) and \
                first.id == op.method_name_var
            r5.ob(ok, f.name + ':first-arg')
            if not ok:
                rep.finding(r5, f.qualname, norm(c.func) + '(' +
                            norm(first) + ', ...)', 'name-arg', OPS, c.lineno,
                            'first argument of %s is not method_name' % env)
        if env != '_imethodcall':
            continue
        seen_ops.add(f.name)
        # ---- R1 ----
        r1.sites += 1
        r1.functions.add(f.fq)
        ad = adapters.get(f.name)
        if ad is None:
            rep.finding(r1, f.qualname, '_imeth_' + f.name, 'no-adapter',
                        MOCK, mock.node.lineno,
                        'operation has no server-side adapter _imeth_%s'
                        % f.name)
            continue
        r1.functions.add(ad.fq)
        kc = {}
        for c in op.envelope_calls:
            for k in call_keywords(f, c):
                if k.arg is None:
                    rep.finding(r1, f.qualname, norm(k.value), 'star-kwargs',
                                OPS, c.lineno, '**kwargs passed to '
                                '_imethodcall: parameter names not evident')
                elif k.arg not in CONTROL_KW and k.arg != 'namespace':
                    kc[k.arg] = (k, c)
        req, opt, odd = adapter_keys(ad)
        for n in odd:
            rep.finding(r1, ad.qualname, norm(n), 'non-literal-key', MOCK,
                        n.lineno, 'params key is not a string literal')
        km = {k: v for k, v in list(req.items()) + list(opt.items())
              if k != 'namespace'}
        for k, node in km.items():
            okid = re.match(r'^[A-Za-z]+$', k) is not None
            r1.ob(okid, '%s:%s:ident' % (f.name, k))
            if not okid:
                rep.finding(r1, ad.qualname, repr(k), 'malformed-key', MOCK,
                            node.lineno,
                            'parameter key %r is not a CIM-XML parameter '
                            'name: the adapter never sees the value the '
                            'client sent' % k)
            ok = k in kc
            r1.ob(ok, '%s:%s:sent' % (f.name, k),
                  {'operation': f.name, 'key': k, 'client_sends': ok,
                   'adapter_requires': k in req})
            if not ok and okid:
                rep.finding(r1, ad.qualname, repr(k), 'never-sent', MOCK,
                            node.lineno,
                            'adapter reads parameter %r which the client '
                            'operation %s never sends' % (k, f.name))
        for k, (kw, c) in kc.items():
            ok = k in km
            r1.ob(ok, '%s:%s:read' % (f.name, k))
            if not ok:
                rep.finding(r1, f.qualname, k, 'never-read', OPS, c.lineno,
                            'client sends IPARAMVALUE %r which the '
                            'server-side adapter _imeth_%s never reads: the '
                            'value is ignored by the server' % (k, f.name))
        # adapter hands each key to the provider under its own name
        for kwname, key, c in forwarded_names(ad):
            ok = kwname == key or key == 'namespace' or \
                not re.match(r'^[A-Za-z]+$', key)
            r1.ob(ok, '%s:%s->%s' % (f.name, key, kwname))
            if not ok:
                rep.finding(r1, ad.qualname, '%s=params[%r]' % (kwname, key),
                            'cross-wired', MOCK, c.lineno,
                            'adapter passes parameter %r to the provider as '
                            '%r' % (key, kwname))
        # ---- R3 ----
        r3.sites += 1
        for c in op.envelope_calls:
            nsarg = c.args[1] if len(c.args) > 1 else kwarg(c, 'namespace')
            how = None
            if isinstance(nsarg, ast.Name):
                a = last_assign_before(f, nsarg.id, c)
                if a is not None:
                    v = a.value
                    if isinstance(v, ast.Call) and dotted(v.func) and \
                            dotted(v.func).split('.')[-1] in NS_HELPERS:
                        how = dotted(v.func).split('.')[-1]
                    elif isinstance(v, ast.Subscript) and \
                            norm(v) == 'context[1]':
                        how = 'context[1] (namespace fixed by the Open '\
                            'operation)'
            if isinstance(nsarg, ast.Subscript) and \
                    norm(nsarg) == 'context[1]':
                how = 'context[1] (namespace fixed by the Open operation)'
            ok = how is not None
            r3.ob(ok, f.name + ':namespace',
                  {'operation': f.name, 'namespace_from': how})
            if not ok:
                rep.finding(r3, f.qualname, 'namespace=' + norm(nsarg),
                            'namespace-not-defaulted', OPS, c.lineno,
                            'the namespace argument of _imethodcall is not '
                            'computed by _iparam_namespace_from_*: the '
                            'connection default namespace is not applied')
    for name, ad in adapters.items():
        if name not in seen_ops:
            rep.finding(r1, ad.qualname, '_imeth_' + name, 'no-client', MOCK,
                        ad.node.lineno, 'adapter has no client operation')
    # helpers end in the default fallback
    for h in NS_HELPERS:
        hf = conn.methods.get(h)
        if hf is None:
            raise AnalysisError('%s vanished' % h)
        r3.functions.add(hf.fq)
        # the helper ends in the default fallback: on the way out the
        # default is assigned / returned where the namespace is known to be
        # None (any statement form; judged like C04.R16)
        ok = _helper_falls_back_on_none(hf)
        r3.ob(ok, h + ':default')
        if not ok:
            rep.finding(r3, hf.qualname, 'if namespace is None: namespace = '
                        'self.default_namespace', 'no-default', OPS,
                        hf.node.lineno, 'helper does not fall back to the '
                        'connection default namespace before returning')

    # ---- R2 ---------------------------------------------------------------
    for envname, elem in (('_imethodcall', 'IPARAMVALUE'),
                          ('_iexportcall', 'EXPPARAMVALUE')):
        ef = conn.methods.get(envname)
        if ef is None:
            raise AnalysisError(envname + ' vanished')
        r2.sites += 1
        r2.functions.add(ef.fq)
        comps = [n for n in walk_no_nested(ef.node)
                 if isinstance(n, ast.ListComp) and
                 isinstance(n.elt, ast.Call) and
                 (dotted(n.elt.func) or '').endswith(elem)]
        ok = len(comps) == 1
        detail = None
        if ok:
            lc = comps[0]
            g = lc.generators[0]
            ok = len(lc.generators) == 1 and \
                norm(g.iter) == 'params.items()' and len(g.ifs) == 1
            if ok:
                tgt = norm(g.target)
                cond = norm(g.ifs[0])
                if isinstance(g.target, ast.Name):
                    val = tgt + '[1]'
                    nam = tgt + '[0]'
                elif isinstance(g.target, ast.Tuple) and \
                        len(g.target.elts) == 2:
                    nam, val = norm(g.target.elts[0]), norm(g.target.elts[1])
                else:
                    nam = val = None
                ok = val is not None and cond == '%s is not None' % val
                if ok:
                    a = lc.elt.args
                    ok = len(a) >= 2 and norm(a[0]) == nam and \
                        val in norm(a[1])
                detail = {'comprehension': norm(lc, 300)}
        r2.ob(ok, envname + ':plist', detail)
        if not ok:
            rep.finding(r2, ef.qualname, elem + ' list', 'filter', OPS,
                        comps[0].lineno if comps else ef.node.lineno,
                        'the parameter list is not built from all of '
                        'params.items() with exactly the filter '
                        '`value is not None`')
    mf = conn.methods.get('_methodcall')
    if mf is None:
        raise AnalysisError('_methodcall vanished')
    r2.sites += 1
    r2.functions.add(mf.fq)
    loops = [n for n in walk_no_nested(mf.node) if isinstance(n, ast.For)]
    over_Params = [lp for lp in loops if norm(lp.iter) == 'Params']
    over_params = [lp for lp in loops if norm(lp.iter) == 'params.items()']

    def appends_all(lp):
        # every path through the loop body appends to ptuples: the append is
        # a top-level statement of the body
        return any(isinstance(s, ast.Expr) and isinstance(s.value, ast.Call)
                   and dotted(s.value.func) == 'ptuples.append'
                   for s in lp.body) and \
            not any(isinstance(x, (ast.Continue, ast.Break))
                    for s in lp.body for x in ast.walk(s))
    ok = len(over_Params) == 1 and len(over_params) == 1 and \
        appends_all(over_Params[0]) and appends_all(over_params[0])
    r2.ob(ok, '_methodcall:ptuples')
    if not ok:
        rep.finding(r2, mf.qualname, 'ptuples', 'params-dropped', OPS,
                    mf.node.lineno, 'not every entry of Params and **params '
                    'is appended to the parameter tuples')
    comps = [n for n in walk_no_nested(mf.node)
             if isinstance(n, ast.ListComp) and isinstance(n.elt, ast.Call)
             and (dotted(n.elt.func) or '').endswith('PARAMVALUE')
             and norm(n.generators[0].iter) == 'ptuples']
    ok = len(comps) == 1 and not comps[0].generators[0].ifs
    r2.ob(ok, '_methodcall:plist')
    if not ok:
        rep.finding(r2, mf.qualname, 'PARAMVALUE list', 'filter', OPS,
                    mf.node.lineno, 'the PARAMVALUE list is not built from '
                    'all parameter tuples')

    # ---- R6: arrays are encoded item by item ------------------------------
    # A method parameter that is a list must reach the server as the list of
    # what each item would be as a scalar parameter: the list branch of each
    # value helper of _methodcall recurses into the same helper per item.
    helpers = [g for g in mf.nested.values() if any(
        isinstance(n, ast.If) and 'isinstance(obj, list)' in norm(n.test)
        for n in walk_no_nested(g.node))]
    if len(helpers) < 3:
        raise AnalysisError('_methodcall: value helpers with a list branch '
                            'not found (%d)' % len(helpers))
    from ..paths import return_paths as _rp6, _Block as _B6
    from ..cfg import GuardWalker as _GW6
    for g in helpers:
        r6.sites += 1
        r6.functions.add(g.fq)
        # every way the helper answers for a list: what it returns is built
        # from calls of itself on the items (or is a constant - the empty /
        # NULL case), whichever way the branches are written
        gpaths = _rp6(_B6(g.node.body, mf), max_paths=300, inline=False) or []
        seen_list = False
        for p_ in gpaths:
            atoms = [a_ for t0, p0 in p_.facts
                     for a_ in _GW6._atoms(t0, p0)]
            if not any(pol and 'isinstance(obj, list)' in norm(t)
                       for t, pol in atoms):
                continue
            seen_list = True
            v = p_.resolve(p_.value) if p_.value is not None else None
            rec = v is not None and any(
                isinstance(c, ast.Call) and isinstance(c.func, ast.Name) and
                c.func.id == g.name for c in ast.walk(v))
            ok = rec or v is None or isinstance(v, ast.Constant)
            r6.ob(ok, '%s|%s' % (g.name, norm(v, 70) if v is not None
                                 else 'None'),
                  {'helper': g.name, 'list_branch_return':
                   norm(v, 90) if v is not None else None,
                   'recurses_per_item': rec})
            if not ok:
                rt = p_.ret_stmt if p_.ret_stmt is not None else g.node
                rep.finding(r6, g.qualname, norm(rt, 70), 'array-items',
                            OPS, getattr(rt, 'lineno', g.node.lineno),
                            'the list branch of %s() does not encode '
                            'the items with %s() itself: an array '
                            'parameter is not sent as the array of what '
                            'its items are as scalars' % (g.name, g.name))
                break
        if not seen_list:
            r6.ob(False, g.name + '|list-branch')
            rep.finding(r6, g.qualname, 'isinstance(obj, list)',
                        'array-items', OPS, g.node.lineno,
                        'list branch neither returns nor recurses')

    # ---- R4 ---------------------------------------------------------------
    from .. import dtd as dtdmod
    from .. import xmltables as X
    D = dtdmod.load(repo)
    R = X.readers(repo)
    # (a) path-typed parameters lose host and namespace
    for hn, types in (('_iparam_objectname', '(CIMClassName, CIMInstanceName)'),
                      ('_iparam_classname', 'CIMClassName'),
                      ('_iparam_instancename', 'CIMInstanceName')):
        h = conn.methods.get(hn)
        if h is None:
            raise AnalysisError(hn + ' vanished')
        r4.sites += 1
        r4.functions.add(h.fq)
        pn = h.params[0]
        # on every return path on which the argument is known to be a path
        # object, what is returned is a copy of it (never the caller's
        # object) whose host and namespace are None at the return
        from ..paths import return_paths
        from .. import attrstate
        tset = {x.strip() for x in types.strip('()').split(',')}
        stm = []
        n_path = 0
        ok = True
        for pth in return_paths(h, inline=False) or []:
            is_path = False
            for t, pol in pth.facts:
                if pol and isinstance(t, ast.Call) and \
                        dotted(t.func) == 'isinstance' and \
                        norm(t.args[0]) == pn:
                    got = {norm(x) for x in (
                        t.args[1].elts if isinstance(t.args[1], ast.Tuple)
                        else [t.args[1]])}
                    if got <= tset | {'CIMClassName', 'CIMInstanceName'} and \
                            got & tset:
                        is_path = True
            if not is_path:
                continue
            n_path += 1
            v = pth.value
            good = False
            if isinstance(v, ast.Name) and v.id in pth.env:
                d_ = pth.env[v.id][0]
                copied = isinstance(d_, ast.Call) and \
                    isinstance(d_.func, ast.Attribute) and \
                    d_.func.attr == 'copy' and norm(d_.func.value) == pn
                # the statements of this path after the copy was taken
                later = pth.effects[pth.env[v.id][1] + 1:]

                def last_store(attr):
                    val = None
                    for st_ in later:
                        if isinstance(st_, ast.Assign) and \
                                len(st_.targets) == 1 and \
                                norm(st_.targets[0]) == '%s.%s' % (v.id,
                                                                   attr):
                            val = st_.value
                        elif isinstance(st_, ast.Assign) and \
                                norm(st_.targets[0]) == v.id:
                            val = None
                    return val
                stripped = all(
                    isinstance(last_store(a_), ast.Constant) and
                    last_store(a_).value is None
                    for a_ in ('host', 'namespace'))
                good = copied and stripped
                stm.append('%s = %s; host None: %s' % (
                    v.id, norm(d_, 40), stripped))
            else:
                stm.append('return %s' % norm(v, 40))
            ok = ok and good
        ok = ok and n_path >= 1
        r4.ob(ok, hn, {'helper': hn, 'path_branch': stm})
        if not ok:
            rep.finding(r4, h.qualname, 'copy(); host = None; namespace = '
                        'None', 'path-not-stripped', OPS,
                        h.node.lineno, 'a path given as parameter is not '
                        'copied and stripped of host and namespace: it '
                        'would be sent as an INSTANCEPATH/CLASSPATH child '
                        'of IPARAMVALUE (or the caller\'s object is '
                        'modified)')
    # (b) every IPARAMVALUE value of every operation went through a
    # normalising helper
    NORMALISERS = ('_iparam_', '_validate_')
    for op in ops:
        if op.envelope != '_imethodcall':
            continue
        f = op.func
        validated = set()
        for c in walk_no_nested(f.node):
            if isinstance(c, ast.Call) and (dotted(c.func) or '').startswith(
                    '_validate_'):
                for a in c.args:
                    if isinstance(a, ast.Name):
                        validated.add(a.id)
        for c in op.envelope_calls:
            for k in call_keywords(f, c):
                if k.arg is None or k.arg in CONTROL_KW or \
                        k.arg == 'namespace':
                    continue
                r4.sites += 1
                v = k.value
                def origin(e, depth=0):
                    """how the value was normalised, following plain local
                    re-bindings (x = y, x = y[0])"""
                    if isinstance(e, ast.Name):
                        a = last_assign_before(f, e.id, c)
                        if a is not None and \
                                isinstance(a.value, ast.Call) and \
                                '_iparam_' in (dotted(a.value.func) or ''):
                            return dotted(a.value.func).split('.')[-1]
                        if e.id in validated:
                            return 'validated'
                        if a is not None and depth < 3 and \
                                len(a.targets) == 1 and \
                                isinstance(a.targets[0], ast.Name):
                            return origin(a.value, depth + 1)
                        return None
                    if isinstance(e, ast.Subscript) and \
                            isinstance(e.value, ast.Name) and \
                            isinstance(e.slice, ast.Constant) and \
                            e.value.id in validated:
                        return '%s (validated by _validate_*)' % norm(e)
                    return None
                how = origin(v)
                ok = how is not None
                r4.ob(ok, '%s:%s' % (f.name, k.arg),
                      {'operation': f.name, 'parameter': k.arg,
                       'normalised_by': how})
                if not ok:
                    rep.finding(r4, f.qualname, '%s=%s' % (k.arg, norm(v)),
                                'not-normalised', OPS, c.lineno,
                                'the value sent as IPARAMVALUE %s does not '
                                'come from an _iparam_*/_validate_* helper: '
                                'type and path normalisation are skipped'
                                % k.arg)
    # (c) elements the values can become vs reader / DTD
    objm = repo.module('pywbem/_cim_obj.py')
    produced = set()
    W = X.writers(repo)
    cls2elem = {w.cls.name: e for e, w in W.items()}
    for cn in ('CIMClassName', 'CIMInstanceName', 'CIMClass', 'CIMInstance',
               'CIMQualifierDeclaration'):
        tf = objm.classes[cn].methods.get('tocimxml')
        for n in walk_no_nested(tf.node):
            if isinstance(n, ast.Return) and isinstance(n.value, ast.Call):
                d = dotted(n.value.func) or ''
                if d.startswith('_cim_xml.'):
                    produced.add(cls2elem.get(d.split('.')[1], d))
    mt = objm.functions.get('tocimxml')
    for n in walk_no_nested(mt.node):
        if isinstance(n, ast.Call) and (dotted(n.func) or '').startswith(
                '_cim_xml.'):
            nm = dotted(n.func).split('.')[1]
            if nm in ('VALUE', 'VALUE_ARRAY'):
                produced.add(cls2elem.get(nm, nm))
    pathful = set()
    for e in D.elements:
        ch = D.children(e)
        if ch & {'NAMESPACEPATH', 'LOCALNAMESPACEPATH', 'HOST'}:
            pathful.add(e)
    changed = True
    while changed:
        changed = False
        for e in D.elements:
            if e not in pathful and e.startswith('VALUE.') and \
                    D.children(e) & pathful:
                pathful.add(e)
                changed = True
    rd = R.get('IPARAMVALUE')
    if rd is None:
        raise AnalysisError('parse_iparamvalue table vanished')
    # children accepted by the reader: argument of optional_child
    pf = rd.func
    accepted = set()
    for c in walk_no_nested(pf.node):
        if isinstance(c, ast.Call) and dotted(c.func) in (
                'self.optional_child', 'self.one_child') and \
                len(c.args) == 2 and isinstance(c.args[1], ast.Tuple):
            accepted = {const_str(e) for e in c.args[1].elts}
    dtdch = D.children('IPARAMVALUE')
    r4.sites += 1
    diff = (produced - pathful) - accepted
    ok = bool(accepted) and not diff
    r4.ob(ok, 'IPARAMVALUE:producible-accepted',
          {'producible': sorted(produced - pathful),
           'path_elements_excluded_by_a': sorted(produced & pathful),
           'reader_accepts': sorted(accepted)})
    if not ok:
        rep.finding(r4, pf.qualname, 'IPARAMVALUE children %s' % sorted(diff),
                    'child-not-accepted', 'pywbem/_tupleparse.py',
                    pf.node.lineno, 'a parameter value can be encoded as %s '
                    'which parse_iparamvalue does not accept' % sorted(diff))
    ok = accepted == dtdch
    r4.ob(ok, 'IPARAMVALUE:reader-vs-dtd',
          {'reader': sorted(accepted), 'dtd': sorted(dtdch)})
    if not ok:
        rep.finding(r4, pf.qualname, 'IPARAMVALUE children', 'reader-vs-dtd',
                    'pywbem/_tupleparse.py', pf.node.lineno,
                    'parse_iparamvalue and the DTD differ in the allowed '
                    'children: %s' % sorted(accepted ^ dtdch))
    _linearity(repo, rep)
    # ---- R4b: None is the only 'not given' value of a request parameter -----
    # The _iparam_* helpers normalise what the caller passed.  They may treat
    # None specially (the parameter is omitted from the request) but must not
    # test the value by truthiness: an empty PropertyList ([] = return no
    # properties), an empty string or 0/False are values the server must see.
    r4b = rep.rule('C04.R4b', 'parameter helpers distinguish "not given" by '
                   '`is None`, never by truthiness')
    helpers_ = [f for n_, f in conn.methods.items()
                if n_.startswith('_iparam_')]
    m_ops = repo.module(OPS)
    helpers_ += [f for n_, f in m_ops.functions.items()
                 if n_.startswith('_iparam_')]
    for f in helpers_:
        ps = [p_ for p_ in f.params if p_ not in ('self', 'cls')]
        if not ps:
            continue
        par = ps[0]
        r4b.sites += 1
        r4b.functions.add(f.fq)

        def truth_uses(t, out):
            if isinstance(t, ast.BoolOp):
                for v in t.values:
                    truth_uses(v, out)
            elif isinstance(t, ast.UnaryOp) and isinstance(t.op, ast.Not):
                truth_uses(t.operand, out)
            elif isinstance(t, ast.Name) and t.id == par:
                out.append(t)
        bad = []
        for n in walk_no_nested(f.node):
            tests = []
            if isinstance(n, (ast.If, ast.While, ast.IfExp, ast.Assert)):
                tests.append(n.test)
            elif isinstance(n, ast.BoolOp):
                tests.append(n)
            for t in tests:
                truth_uses(t, bad)
        r4b.ob(not bad, f.qualname, {'helper': f.qualname, 'parameter': par})
        for u in bad[:1]:
            rep.finding(r4b, f.qualname, par, 'truthiness-of-parameter', OPS,
                        u.lineno, 'the request parameter %s is tested by '
                        'truthiness: an empty list / empty string / 0 is '
                        'handled like None and is not sent (e.g. '
                        'PropertyList=[] must yield objects without '
                        'properties, not all properties)' % par)
    if r4b.sites < 8:
        raise AnalysisError('only %d _iparam_* helpers found' % r4b.sites)
    # ---- R3b: the built-in default namespace is used in one place only -----
    # `DEFAULT_NAMESPACE` (root/cimv2) may only initialise the connection's
    # default_namespace; every operation falls back to the *connection's*
    # default (self.default_namespace), which is what the mock does too.
    r3b = rep.rule('C04.R3b', 'operations fall back to the connection default '
                   'namespace, never to the built-in constant')
    allowed_users = ('_set_default_namespace', '__init__')
    uses = 0
    for name, f in list(conn.methods.items()) + list(conn.setters.items()):
        for n in walk_no_nested(f.node):
            if isinstance(n, ast.Name) and n.id == 'DEFAULT_NAMESPACE':
                uses += 1
                r3b.sites += 1
                ok = f.name in allowed_users
                r3b.ob(ok, '%s|DEFAULT_NAMESPACE' % f.qualname,
                       {'function': f.qualname})
                if not ok:
                    rep.finding(r3b, f.qualname, 'DEFAULT_NAMESPACE',
                                'builtin-default', OPS, n.lineno,
                                'the operation path uses the built-in '
                                'namespace constant instead of '
                                'self.default_namespace: on a connection '
                                'whose default namespace is not root/cimv2 '
                                'the request targets another namespace than '
                                'the same operation done directly')
    if uses == 0:
        raise AnalysisError('DEFAULT_NAMESPACE is no longer used to '
                            'initialise WBEMConnection.default_namespace '
                            '(anchor of C04.R3b)')

    _r16_default_only_when_omitted(repo, rep, conn)
    _r17_reply_text_is_not_truth_tested(repo, rep, conn)
    _r19_paths_sent_without_host(repo, rep, conn)
    from .c03 import normalised_arguments_are_the_ones_sent
    normalised_arguments_are_the_ones_sent(repo, rep, 'C04.R18')


def _r17_reply_text_is_not_truth_tested(repo, rep, conn):
    """C04.R17: cimvalue(v, 'boolean') is bool(v) - the Python truth test.
    The value of a RETURNVALUE / PARAMVALUE arrives from the parser as the
    *text* of its VALUE element, so handing it to cimvalue() under a type
    that can be 'boolean' turns <VALUE>FALSE</VALUE> into True: the
    operation done directly returns False, done over CIM-XML it returns
    True.  Every call of cimvalue() on the reply path therefore has a type
    argument that cannot be 'boolean' where it is made: a constant other
    than 'boolean', or a fact `t == 'boolean'` that is false there."""
    from ..cfg import stmt_facts
    r17 = rep.rule('C04.R17', 'reply text never reaches the truth test of '
                   "cimvalue(..., 'boolean')")
    cv = repo.module('pywbem/_cim_obj.py').functions.get('cimvalue')
    if cv is None:
        raise AnalysisError('cimvalue() vanished')
    truth = False
    for st, (facts, _t) in stmt_facts(cv.node).items():
        if isinstance(st, ast.Return) and isinstance(st.value, ast.Call) \
                and dotted(st.value.func) == 'bool' and any(
                    pol and eqsrc(t, "type == 'boolean'")
                    for t, pol in facts):
            truth = True
    if not truth:
        r17.notes.append("cimvalue(v, 'boolean') is no longer bool(v): "
                         'nothing to check')
        return
    nsites = 0
    for f in list(conn.methods.values()):
        for g in [f] + [x for x in f.nested.values()]:
            sf = None
            for c in walk_no_nested(g.node):
                if not (isinstance(c, ast.Call) and
                        dotted(c.func) == 'cimvalue' and len(c.args) >= 2):
                    continue
                nsites += 1
                r17.sites += 1
                r17.functions.add(f.fq)
                t = c.args[1]
                ok = isinstance(t, ast.Constant) and t.value != 'boolean'
                if not ok:
                    if sf is None:
                        sf = stmt_facts(g.node)
                    for st, (facts, _t) in sf.items():
                        if isinstance(st, (ast.If, ast.For, ast.While,
                                           ast.Try, ast.With)):
                            continue
                        if not any(x is c for x in ast.walk(st)):
                            continue
                        for tt, pol in facts:
                            if isinstance(tt, ast.Compare) and \
                                    len(tt.ops) == 1 and \
                                    norm(tt.left) == norm(t) and \
                                    const_str(tt.comparators[0]) == \
                                    'boolean':
                                if (isinstance(tt.ops[0], ast.Eq) and
                                        not pol) or \
                                        (isinstance(tt.ops[0], ast.NotEq)
                                         and pol):
                                    ok = True
                r17.ob(ok, '%s|%s' % (g.qualname, norm(c, 60)))
                if not ok:
                    rep.finding(r17, g.qualname, norm(c, 70),
                                'text-truth-tested', OPS, c.lineno,
                                'the type argument %s can be \'boolean\' '
                                'here, and the value is the text of a VALUE '
                                'element: cimvalue() applies bool() to it, '
                                'so <VALUE>FALSE</VALUE> becomes True (the '
                                'same method invoked directly returns '
                                'False)' % norm(t))
    if nsites < 1:
        r17.notes.append('no call of cimvalue() on the reply path')


def _r19_paths_sent_without_host(repo, rep, conn):
    """C04.R19: a path that goes into a request is sent as a bare
    INSTANCENAME / CLASSNAME: the operations strip the namespace (it
    travels in LOCALNAMESPACEPATH) and the host (it does not travel at
    all).  Stripping only the namespace produces the same XML - the encoder
    picks INSTANCENAME as soon as the namespace is None - but the operation
    done directly gets the path with its host, and a path with a host is a
    different key: ModifyInstance succeeds over CIM-XML and answers
    CIM_ERR_NOT_FOUND directly.  So wherever the request path of
    WBEMConnection sets `<path>.namespace = None` it also sets
    `<path>.host = None` for the same path on the same way through."""
    from ..cfg import CFG
    r19 = rep.rule('C04.R19', 'a path stripped of its namespace for the '
                   'request is stripped of its host too')
    n = 0
    for f in conn.methods.values():
        strips = [st for st in walk_no_nested(f.node)
                  if isinstance(st, ast.Assign) and len(st.targets) == 1 and
                  isinstance(st.targets[0], ast.Attribute) and
                  st.targets[0].attr == 'namespace' and
                  isinstance(st.value, ast.Constant) and
                  st.value.value is None]
        if not strips:
            continue
        cfg = CFG(f.node)
        hosts = [st for st in walk_no_nested(f.node)
                 if isinstance(st, ast.Assign) and len(st.targets) == 1 and
                 isinstance(st.targets[0], ast.Attribute) and
                 st.targets[0].attr == 'host' and
                 isinstance(st.value, ast.Constant) and
                 st.value.value is None]
        for st in strips:
            n += 1
            r19.sites += 1
            r19.functions.add(f.fq)
            recv = norm(st.targets[0].value)
            ok = any(norm(h.targets[0].value) == recv and
                     (cfg.dominates(h, st) or cfg.dominates(st, h))
                     for h in hosts)
            r19.ob(ok, '%s|%s' % (f.qualname, norm(st, 60)))
            if not ok:
                rep.finding(r19, f.qualname, norm(st, 70), 'host-kept',
                            OPS, st.lineno,
                            '%s.namespace is cleared for the request but '
                            '%s.host is not: the XML is the same, the '
                            'operation done directly sees a path with a '
                            'host and does not find the object'
                            % (recv, recv))
    if n < 3:
        raise AnalysisError('C04.R19: only %d namespace-stripping sites '
                            'found' % n)


def _helper_falls_back_on_none(hf):
    from ..cfg import stmt_facts

    def is_default(e):
        return isinstance(e, ast.Attribute) and \
            e.attr == 'default_namespace' and \
            isinstance(e.value, ast.Name) and e.value.id == 'self'

    def none_fact(t, pol, who=None):
        if isinstance(t, ast.Compare) and len(t.ops) == 1 and \
                isinstance(t.comparators[0], ast.Constant) and \
                t.comparators[0].value is None and \
                (who is None or norm(t.left) == who):
            return (isinstance(t.ops[0], ast.Is) and pol) or \
                (isinstance(t.ops[0], ast.IsNot) and not pol)
        return False
    from ..inline import Flat
    hnode = Flat(hf).node
    sf = stmt_facts(hnode)
    good = 0
    for st in walk_no_nested(hnode):
        if isinstance(st, ast.Assign) and len(st.targets) == 1:
            v, who = st.value, norm(st.targets[0])
        elif isinstance(st, ast.Return) and st.value is not None:
            v, who = st.value, None
        else:
            continue
        if is_default(v):
            facts = sf.get(st, ((), ()))[0]

            def omitted(t, pol):
                if isinstance(t, ast.Compare):
                    return none_fact(t, pol, who)
                if who is None and isinstance(t, ast.Call) and pol and \
                        dotted(t.func) == 'isinstance' and \
                        len(t.args) == 2 and norm(t.args[1]) == 'str':
                    return True
                if isinstance(t, ast.BoolOp) and \
                        isinstance(t.op, ast.Or) and pol:
                    return all(omitted(v_, True) for v_ in t.values)
                return False
            if any(omitted(t, pol) for t, pol in facts):
                good += 1
            else:
                return False
        elif isinstance(v, ast.IfExp) and \
                (is_default(v.body) or is_default(v.orelse)):
            other = v.orelse if is_default(v.body) else v.body
            if none_fact(v.test, is_default(v.body), norm(other)):
                good += 1
            else:
                return False
        elif isinstance(v, ast.BoolOp) and any(is_default(x)
                                               for x in v.values):
            return False
    return good > 0


def _r16_default_only_when_omitted(repo, rep, conn):
    """C04.R16: on the operation path the connection default replaces a
    namespace only where none was given (`is None`).  An empty namespace
    ('' after stripping '/', or the namespace of an object path) is a value
    the caller supplied: executed directly it is an invalid namespace; a
    transport that quietly turns it into the default sends the request to a
    namespace the caller did not name."""
    from ..cfg import stmt_facts, expr_guards
    r16 = rep.rule('C04.R16', 'the default namespace is applied only to an '
                   'omitted (None) namespace on the operation path')
    mock = repo.cls(MOCK, 'FakedWBEMConnection')
    skip = ('__init__', 'copy', '_set_default_namespace', '__repr__',
            '__str__')
    funcs = [f for n, f in conn.methods.items() if n not in skip] + \
        [f for n, f in mock.methods.items() if n.startswith('_mock_')]

    def is_default(e):
        return isinstance(e, ast.Attribute) and \
            e.attr in ('default_namespace', '_default_namespace') and \
            isinstance(e.value, ast.Name) and e.value.id == 'self'

    def none_test(t, pol, who):
        """the fact says `who is None`"""
        if isinstance(t, ast.Compare) and len(t.ops) == 1 and \
                norm(t.left) == who and \
                isinstance(t.comparators[0], ast.Constant) and \
                t.comparators[0].value is None:
            return (isinstance(t.ops[0], ast.Is) and pol) or \
                (isinstance(t.ops[0], ast.IsNot) and not pol)
        return False
    for f in funcs:
        sf = None
        for st in walk_no_nested(f.node):
            if isinstance(st, ast.Return) and st.value is not None and \
                    f.name not in ('default_namespace',):
                # `return self.default_namespace` as the fallback of a
                # helper: some value is known to be None there
                v = st.value
                verdict = None
                if is_default(v):
                    if sf is None:
                        sf = stmt_facts(f.node)
                    facts = sf.get(st, ((), ()))[0]
                    def omitted(t, pol):
                        # no namespace was given: something is None, or
                        # the object is a bare class name string
                        if isinstance(t, ast.Compare):
                            return none_test(t, pol, norm(t.left))
                        if isinstance(t, ast.Call) and pol and \
                                dotted(t.func) == 'isinstance' and \
                                len(t.args) == 2 and \
                                norm(t.args[1]) == 'str':
                            return True
                        if isinstance(t, ast.BoolOp) and \
                                isinstance(t.op, ast.Or) and pol:
                            return all(omitted(v, True) for v in t.values)
                        return False
                    verdict = any(omitted(t, pol) for t, pol in facts)
                elif isinstance(v, ast.BoolOp) and \
                        any(is_default(x) for x in v.values):
                    verdict = False
                elif isinstance(v, ast.IfExp) and \
                        (is_default(v.body) or is_default(v.orelse)):
                    other = v.orelse if is_default(v.body) else v.body
                    verdict = none_test(v.test, is_default(v.body),
                                        norm(other))
                if verdict is None:
                    continue
                r16.sites += 1
                r16.functions.add(f.fq)
                r16.ob(verdict, '%s|%s' % (f.qualname, norm(st, 70)))
                if not verdict:
                    rep.finding(r16, f.qualname, norm(st, 80),
                                'default-for-given-namespace', f.file,
                                st.lineno,
                                'the connection default namespace is '
                                'returned where no namespace is known to be '
                                'None: an empty namespace supplied by the '
                                'caller is replaced by the default')
                continue
            if not (isinstance(st, ast.Assign) and len(st.targets) == 1):
                continue
            tgt = norm(st.targets[0])
            if tgt.startswith('self.'):
                continue
            v = st.value
            verdict = None
            if is_default(v):
                if sf is None:
                    sf = stmt_facts(f.node)
                facts = sf.get(st, ((), ()))[0]
                verdict = any(none_test(t, pol, tgt) for t, pol in facts)
            elif isinstance(v, ast.BoolOp) and \
                    any(is_default(x) for x in v.values):
                verdict = False
            elif isinstance(v, ast.IfExp) and \
                    (is_default(v.body) or is_default(v.orelse)):
                other = v.orelse if is_default(v.body) else v.body
                verdict = none_test(v.test, is_default(v.body), norm(other))
            if verdict is None:
                continue
            r16.sites += 1
            r16.functions.add(f.fq)
            r16.ob(verdict, '%s|%s' % (f.qualname, norm(st, 70)))
            if not verdict:
                rep.finding(r16, f.qualname, norm(st, 80),
                            'default-for-given-namespace', f.file,
                            st.lineno,
                            'the connection default namespace replaces a '
                            'namespace that is not known to be None: an '
                            'empty namespace supplied by the caller is sent '
                            'to the server as the default namespace, while '
                            'the same operation done directly is refused')
    if r16.sites < 3:
        raise AnalysisError('C04.R16: only %d default-namespace fallbacks '
                            'found on the operation path' % r16.sites)


def _linearity(repo, rep):
    """C04.R7: element nodes are linear (see pwsa/linear.py)"""
    from .. import linear
    rr = rep.rule('C04.R7', 'every constructed element node is placed into '
                  'the document at most once (DOM appendChild moves a node)')
    sites, finds = linear.check(repo)
    rr.sites = sites
    if sites < 8:
        raise AnalysisError('only %d element-node variables found in the '
                            'tocimxml()/request-building code' % sites)
    bad = {(f[1], f[2]) for f in finds}
    for i in range(sites):
        rr.ob(i >= len(bad), 'node-%d' % i)
    for file, func, construct, fact, line, msg in finds:
        rep.finding(rr, func, construct, fact, file, line, msg)


def explicit_namespace_wins(repo, rep, rid):
    """An operation takes the namespace from its object argument only when
    no namespace was given explicitly: `namespace = X.namespace` is
    executed only where `namespace is None` is known.  All operations (and
    the Iter* functions that choose between the pull and the traditional
    operation) follow this one rule; an operation that lets the object's
    namespace override the explicit argument talks to another namespace
    than its siblings for the same arguments."""
    from ..cfg import stmt_facts, GuardWalker
    r = rep.rule(rid, 'the namespace of an object argument is used only when '
                 'no explicit namespace was given')
    conn = repo.cls(OPS, 'WBEMConnection')
    for f in conn.methods.values():
        if 'namespace' not in f.params:
            continue
        for st, (fs, _t) in stmt_facts(f.node).items():
            if not (isinstance(st, ast.Assign) and
                    norm(st.targets[0]) == 'namespace' and
                    isinstance(st.value, ast.Attribute) and
                    st.value.attr == 'namespace'):
                continue
            r.sites += 1
            r.functions.add(f.fq)
            atoms = []
            for t, p in fs:
                atoms += [(norm(a), q) for a, q in GuardWalker._atoms(t, p)]
            ok = ('namespace is None', True) in atoms or \
                ('namespace is not None', False) in atoms or \
                ('namespace', False) in atoms
            r.ob(ok, '%s|%s' % (f.name, norm(st)))
            if not ok:
                rep.finding(r, f.qualname, norm(st), 'object-namespace-wins',
                            OPS, st.lineno,
                            'in %s the namespace of the object argument '
                            'replaces an explicitly given namespace '
                            '(conditions: %s); the sibling operations use '
                            'it only when namespace is None, so e.g. the '
                            'pull branch of an Iter* call enumerates '
                            'another namespace than the traditional '
                            'operation with the same arguments'
                            % (f.name, ', '.join(
                                '%s%s' % ('' if q else 'not ', a)
                                for a, q in atoms) or 'none'))
    if r.sites < 10:
        raise AnalysisError('%s: only %d namespace defaulting sites found'
                            % (rid, r.sites))


def twin_target_normalisation(repo, rep):
    """C04.R9: the CIM-XML path (_methodcall) and the direct path
    (_mock_methodcall) hand on the same normalised target: a copy of the
    object name with host None and a namespace.  Decided by a must-analysis
    of attribute None-ness on the CFG (pwsa/attrstate.py) at the point where
    the target leaves the function: if on some path the host is not known
    to be None (e.g. it is only cleared when the namespace had to be
    defaulted), the direct path looks up a host-qualified path in a store
    keyed by host-less paths (CIM_ERR_NOT_FOUND) while the CIM-XML path
    succeeds."""
    from .. import attrstate
    r9 = rep.rule('C04.R9', 'extrinsic method target is host-less and has a '
                  'namespace on both paths')
    nonnull = attrstate.verified_nonnull(repo)
    sites = [(repo.cls(OPS, 'WBEMConnection'), '_methodcall',
              lambda c: isinstance(c.func, ast.Attribute) and
              c.func.attr == 'tocimxml' and
              isinstance(c.func.value, ast.Name)),
             (repo.cls(MOCK, 'FakedWBEMConnection'), '_mock_methodcall',
              lambda c: (dotted(c.func) or '').endswith('_meth_InvokeMethod'))]
    for cls, fn, is_exit in sites:
        f = cls.methods.get(fn)
        if f is None:
            raise AnalysisError('%s.%s vanished' % (cls.name, fn))
        r9.functions.add(f.fq)
        from ..inline import Flat
        f = Flat(f, keep=('_meth_InvokeMethod',))
        exits = [c for c in walk_no_nested(f.node)
                 if isinstance(c, ast.Call) and is_exit(c)]
        if not exits:
            raise AnalysisError('%s: the point where the target is handed '
                                'on was not found' % fn)
        for c in exits:
            if isinstance(c.func, ast.Attribute) and \
                    c.func.attr == 'tocimxml':
                var = c.func.value.id
            else:
                names = [a.id for a in c.args if isinstance(a, ast.Name)]
                var = next((n for n in names if 'object' in n or
                            'path' in n), names[0] if names else None)
            r9.sites += 1
            atoms = attrstate.atoms_before(f, c, repo, nonnull)
            host_none = (var + '.host', 'none', True) in atoms
            ns_set = (var + '.namespace', 'none', False) in atoms
            r9.ob(host_none and ns_set, '%s|%s' % (fn, norm(c, 50)),
                  {'target': var, 'host_is_none': host_none,
                   'namespace_set': ns_set,
                   'nonnull_assumptions': sorted(nonnull)})
            if not (host_none and ns_set):
                what = []
                if not host_none:
                    what.append('%s.host is not None on some path' % var)
                if not ns_set:
                    what.append('%s.namespace may be None' % var)
                rep.finding(r9, f.qualname, norm(c, 70),
                            'target-not-normalised', f.file, c.lineno,
                            '%s: the target handed on is not the '
                            'normalised (host-less, namespace set) object '
                            'on every path.  The instance store and the '
                            'CIM-XML LOCALINSTANCEPATH are host-less, so a '
                            'path that carries host and namespace (as '
                            'returned by AssociatorNames) behaves '
                            'differently on the direct and the CIM-XML '
                            'path' % '; '.join(what))


def iparam_typed_by_name(repo, rep, ops):
    """C04.R10: the server-side decoder gives an IPARAMVALUE a Python type
    other than what its child element says only for parameters it knows by
    name.  The boolean parameters travel as <VALUE>TRUE</VALUE> - exactly
    like a string parameter whose value happens to be "true" - so the
    conversion of the text to bool must sit under a test of the NAME
    attribute against the boolean parameter names; converting every
    true/false text makes Role='true' arrive as True at the provider."""
    r10 = rep.rule('C04.R10', 'parse_iparamvalue converts text to bool only '
                   'under a test of the parameter name')
    from ..cfg import stmt_facts
    tp = repo.cls('pywbem/_tupleparse.py', 'TupleParser')
    f = tp.methods.get('parse_iparamvalue')
    if f is None:
        raise AnalysisError('parse_iparamvalue vanished')
    r10.functions.add(f.fq)
    from ..inline import Flat
    f = Flat(f)
    # locals holding the NAME attribute
    name_vars = set()
    for n in walk_no_nested(f.node):
        if isinstance(n, ast.Assign) and len(n.targets) == 1 and \
                isinstance(n.targets[0], ast.Name) and \
                "['NAME']" in norm(n.value, 200):
            name_vars.add(n.targets[0].id)
    if not name_vars:
        raise AnalysisError('parse_iparamvalue: NAME attribute not read')
    sent = set()
    for op in ops:
        for c in op.envelope_calls:
            for k in call_keywords(op.func, c):
                if k.arg:
                    sent.add(k.arg.lower())
    convs = []
    for st, (facts, _t) in stmt_facts(f.node).items():
        if isinstance(st, ast.Assign):
            vals = [st.value]
        elif isinstance(st, ast.Return) and st.value is not None:
            # the converted value may be returned directly (as an item of
            # the (name, value) pair)
            vals = list(st.value.elts) if isinstance(
                st.value, ast.Tuple) else [st.value]
        else:
            continue

        def is_bool(v):
            return (isinstance(v, ast.Compare) and any(
                isinstance(x, ast.Constant) and
                str(x.value).lower() in ('true', 'false')
                for x in ast.walk(v))) or \
                (isinstance(v, ast.Call) and dotted(v.func) == 'bool') or \
                (isinstance(v, ast.Constant) and isinstance(v.value, bool))
        if any(is_bool(v) for v in vals):
            convs.append((st, facts))
    if not convs:
        raise AnalysisError('parse_iparamvalue: boolean conversion not found')
    for st, facts in convs:
        r10.sites += 1
        names = None
        for t, pol in facts:
            if isinstance(t, ast.Compare) and len(t.ops) == 1 and \
                    ((isinstance(t.ops[0], ast.In) and pol) or
                     (isinstance(t.ops[0], ast.NotIn) and not pol)) and \
                    any(isinstance(x, ast.Name) and x.id in name_vars
                        for x in ast.walk(t.left)):
                tab = t.comparators[0]
                if isinstance(tab, ast.Name):
                    # a local bound once to the table of names
                    defs = [a_.value for a_ in walk_no_nested(f.node)
                            if isinstance(a_, ast.Assign) and
                            len(a_.targets) == 1 and
                            norm(a_.targets[0]) == tab.id]
                    tab = defs[0] if len(defs) == 1 else tab
                if isinstance(tab, (ast.Tuple, ast.List, ast.Set)):
                    names = [const_str(e) for e in tab.elts]
        ok = names is not None and all(n_ is not None for n_ in names)
        unknown = [n_ for n_ in (names or []) if n_ and n_.lower() not in sent]
        r10.ob(ok and not unknown, norm(st, 60),
               {'guarded_by_names': names, 'not_sent_by_any_operation':
                unknown})
        if not ok:
            rep.finding(r10, f.qualname, norm(st, 70), 'untyped-conversion',
                        'pywbem/_tupleparse.py', st.lineno,
                        'the text of the parameter is converted to bool '
                        'without a test of the parameter name: a string '
                        'parameter (Role, ResultRole, QueryLanguage, ...) '
                        'whose value is "true" or "false" reaches the '
                        'server as a bool, unlike on the direct path')
        elif unknown:
            rep.finding(r10, f.qualname, str(unknown), 'unknown-name',
                        'pywbem/_tupleparse.py', st.lineno,
                        'parameter names %s are converted to bool but no '
                        'operation sends a parameter of that name' % unknown)


def _isinstance_types(t):
    """(subject text, {type names}) of an isinstance(x, T | (T, ...)) test"""
    if isinstance(t, ast.Call) and dotted(t.func) == 'isinstance' and \
            len(t.args) == 2:
        tt = t.args[1]
        els = tt.elts if isinstance(tt, ast.Tuple) else [tt]
        return norm(t.args[0]), {norm(x) for x in els}
    return None, set()


def sequence_types_agree(repo, rep):
    """C04.R14: the sequence types that the parameter normalisers of the
    operations let through unchanged are sequence types that the encoder of
    intrinsic parameter values (module-level tocimxml()) encodes as an
    array.  The direct path hands the value to the provider as it is; on
    the CIM-XML path a sequence type the encoder does not know falls
    through to the scalar encoder and the operation fails with TypeError
    before a request is sent - same call, different outcome (e.g.
    PropertyList=('a', 'b'))."""
    from ..paths import return_paths
    from ..cfg import GuardWalker
    r14 = rep.rule('C04.R14', 'sequence types accepted for list-valued '
                   'parameters are encoded as arrays')
    SEQ = {'list', 'tuple', 'set', 'frozenset'}
    enc = repo.module(OBJ).functions.get('tocimxml')
    if enc is None:
        raise AnalysisError('module-level tocimxml() vanished')
    pv = [p_ for p_ in enc.params][0]
    enc_types = set()
    for n in walk_no_nested(enc.node):
        if isinstance(n, ast.If) and any(
                isinstance(x, (ast.For, ast.comprehension)) and
                norm(x.iter) == pv
                for b in n.body for x in ast.walk(b)):
            for t, pol in GuardWalker._atoms(n.test, True):
                subj, tys = _isinstance_types(t)
                if pol and subj == pv:
                    enc_types |= tys
    if not enc_types:
        raise AnalysisError('tocimxml(): array branch (isinstance test with '
                            'a loop over the value) not found')
    r14.functions.add(enc.fq)
    n_norm = 0
    for name, f in sorted(repo.module(OPS).functions.items()):
        if not name.startswith('_iparam_'):
            continue
        ps = [p_ for p_ in f.params]
        if not ps:
            continue
        paths = return_paths(f, max_paths=64) or []
        passed = set()
        for p_ in paths:
            if p_.value is None or norm(p_.resolve(p_.value)) != ps[0]:
                continue        # the value was replaced on this path
            for t0, p0 in p_.facts:
                for t, pol in GuardWalker._atoms(t0, p0):
                    subj, tys = _isinstance_types(t)
                    if pol and subj == ps[0]:
                        passed |= tys & SEQ
                    # `x is None or isinstance(x, (list, tuple))` holds:
                    # each disjunct may be the one that does
                    if pol and isinstance(t, ast.BoolOp) and \
                            isinstance(t.op, ast.Or):
                        for v in t.values:
                            subj, tys = _isinstance_types(v)
                            if subj == ps[0]:
                                passed |= tys & SEQ
        if not passed:
            continue
        n_norm += 1
        r14.sites += 1
        r14.functions.add(f.fq)
        missing = sorted(passed - enc_types)
        r14.ob(not missing, name, {'passes_through': sorted(passed),
                                   'encoder_array_types': sorted(enc_types)})
        if missing:
            rep.finding(r14, f.qualname, 'isinstance(%s, %s)' % (
                ps[0], ', '.join(sorted(passed))), 'sequence-type', OPS,
                f.node.lineno,
                '%s() lets a %s through unchanged, but tocimxml() encodes '
                'only %s as an array: over CIM-XML the operation raises '
                'TypeError before sending, while the direct call works'
                % (name, '/'.join(missing), '/'.join(sorted(enc_types))))
    if n_norm < 1:
        raise AnalysisError('C04.R14: no parameter normaliser that passes '
                            'a sequence through was found')


def unembedding_by_attribute_only(repo, rep):
    """C04.R12: whether a value that arrives with an EmbeddedObject
    attribute is un-embedded (parse_embeddedObject) depends on the attribute
    alone.  parse_embeddedObject() itself handles strings, lists of strings
    and None; a caller that adds a condition on the value (e.g.
    isinstance(child, str)) leaves arrays of embedded instances as escaped
    XML text - the server then sees a string array parameter where the
    direct call passes CIMInstance objects, and output parameters come back
    as text."""
    from ..cfg import stmt_facts
    r12 = rep.rule('C04.R12', 'parse_embeddedObject() is applied whenever the '
                   'EmbeddedObject attribute is present, whatever the value')
    tp = repo.cls('pywbem/_tupleparse.py', 'TupleParser')
    n = 0
    for name, f in sorted(tp.methods.items()):
        if name == 'parse_embeddedObject':
            continue
        # locals that stand for the attribute (value of attrl.get(...))
        attr_locals = set()
        for a in walk_no_nested(f.node):
            if isinstance(a, ast.Assign) and len(a.targets) == 1 and \
                    isinstance(a.targets[0], ast.Name) and \
                    any(isinstance(x, ast.Constant) and
                        isinstance(x.value, str) and
                        x.value.upper() == 'EMBEDDEDOBJECT'
                        for x in ast.walk(a.value)):
                attr_locals.add(a.targets[0].id)
        for st, (fs, _t) in stmt_facts(f.node).items():
            if isinstance(st, (ast.If, ast.For, ast.While, ast.Try,
                               ast.With)):
                continue
            calls = [c for c in ast.walk(st) if isinstance(c, ast.Call) and
                     (dotted(c.func) or '').endswith(
                         '.parse_embeddedObject') and c.args]
            for c in calls:
                n += 1
                r12.sites += 1
                r12.functions.add(f.fq)
                val_names = {x.id for x in ast.walk(c.args[0])
                             if isinstance(x, ast.Name)}
                extra = []
                for t, pol in fs:
                    names = {x.id for x in ast.walk(t)
                             if isinstance(x, ast.Name)}
                    about_attr = any(
                        isinstance(x, ast.Constant) and
                        isinstance(x.value, str) and
                        x.value.upper() == 'EMBEDDEDOBJECT'
                        for x in ast.walk(t)) or names & attr_locals
                    if names & val_names and not about_attr:
                        extra.append((t, pol))
                r12.ob(not extra, '%s|%s' % (name, norm(c, 50)))
                for t, pol in extra[:1]:
                    rep.finding(r12, f.qualname, norm(t, 70),
                                'value-dependent-unembedding',
                                'pywbem/_tupleparse.py', c.lineno,
                                'the value is un-embedded only when %s is '
                                '%s: for other values that carry the '
                                'EmbeddedObject attribute (arrays of '
                                'embedded objects) the escaped XML text is '
                                'handed on as strings' % (norm(t, 50), pol))
    if n < 3:
        raise AnalysisError('C04.R12: only %d parse_embeddedObject() call '
                            'sites' % n)


def path_attached_after_properties(repo, rep, rid='C04.R13'):
    """C04.R13: the decoder attaches the decoded instance path to an
    instance after it has filled in the properties.  CIMInstance.__setitem__
    still propagates the value of a key property into the keybinding of the
    same name of the instance's path (deprecated behaviour): an instance
    that already carries its path while `inst[name] = prop` runs gets its
    keybindings overwritten by the property values, so the server sees
    another path than the one the client sent (VALUE.NAMEDINSTANCE of
    ModifyInstance) - another instance is modified, or NOT_FOUND instead of
    INVALID_PARAMETER."""
    from ..cfg import CFG
    r13 = rep.rule(rid, 'decoded instances get their path after their '
                   'properties')
    tp = repo.cls('pywbem/_tupleparse.py', 'TupleParser')
    n = 0
    for name, f in sorted(tp.methods.items()):
        built = {}
        for a in walk_no_nested(f.node):
            if isinstance(a, ast.Assign) and len(a.targets) == 1 and \
                    isinstance(a.targets[0], ast.Name) and \
                    isinstance(a.value, ast.Call) and \
                    dotted(a.value.func) == 'CIMInstance':
                built[a.targets[0].id] = a
        if not built:
            continue
        cfg = CFG(f.node)
        for v, ctor in sorted(built.items()):
            n += 1
            r13.sites += 1
            r13.functions.add(f.fq)
            has_path = any(k.arg == 'path' and not (
                isinstance(k.value, ast.Constant) and k.value.value is None)
                for k in ctor.value.keywords) or len(ctor.value.args) >= 4
            path_sets = [ctor] if has_path else []
            path_sets += [s_ for s_ in cfg.stmts()
                          if isinstance(s_, ast.Assign) and
                          norm(s_.targets[0]) == v + '.path']
            items = [s_ for s_ in cfg.stmts()
                     if isinstance(s_, ast.Assign) and
                     isinstance(s_.targets[0], ast.Subscript) and
                     norm(s_.targets[0].value) == v]
            bad = [(ps, it) for ps in path_sets for it in items
                   if ps is not it and it in cfg.reachable(ps)]
            r13.ob(not bad, '%s|%s' % (name, v),
                   {'path_set_by': [norm(x, 50) for x in path_sets],
                    'item_stores': len(items)})
            for ps, it in bad[:1]:
                rep.finding(r13, f.qualname, norm(ps, 70),
                            'path-before-properties',
                            'pywbem/_tupleparse.py', ps.lineno,
                            'the instance carries its path while %s runs: '
                            'CIMInstance.__setitem__ overwrites the '
                            'keybindings of that path with the key property '
                            'values, so the decoded path is not the path '
                            'that was sent' % norm(it, 40))
    if n < 1:
        raise AnalysisError('C04.R13: no CIMInstance construction in the '
                            'tuple parser')
