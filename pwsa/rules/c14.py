"""C14 - pull enumeration sessions deliver each object exactly once.

Typestate of the enumeration-context table, check-before-consume, slice
agreement, zero-is-not-unset, validators called, pull-kind table.
"""
import ast

from ..model import (AnalysisError, walk_no_nested, dotted, norm, const_str,
                     eqsrc)
from ..cfg import CFG, always_exits
from ..ops import operations, OPS

EXPLANATION = (
    "Static typestate/ordering check of the mock server's pull machinery and "
    "the client-side validation: (R1) the only writers of "
    "enumeration_contexts are _open_response (insert, in the same branch "
    "that sets eos='FALSE' and returns a non-empty context id), "
    "_pull_response (delete, in the branch that sets eos='TRUE' and returns "
    "'' as context) and CloseEnumeration (delete under a membership test, "
    "else raise INVALID_ENUMERATION_CONTEXT); (R2) in _pull_response the "
    "context lookup, namespace validation and pull-type comparison raise "
    "before the first mutation (CFG dominance); (R3) the returned slice and "
    "the deleted slice have the same bounds and the eos predicate is "
    "len(objects) <= max in both functions; (R4) MaxObjectCount / "
    "OperationTimeout, for which 0 has its own meaning, are defaulted only "
    "by `is None` tests, never by truthiness; (R5) every client Open/Pull "
    "calls _validate_MaxObjectCount_OpenPull, every Pull/Close "
    "_validate_context, before _imethodcall, and every server-side "
    "Open/Pull/Close calls _validate_pull_operations_enabled first; (R6) "
    "the pull_type literal registered by each server-side Open equals the "
    "req_type literal of the Pull operation DSP0200 pairs with it. "
    "Necessary conditions only: exactly-once over interleaved histories is "
    "not decided.")
ASSUMPTIONS = [
    "Python list slicing/del semantics: x[0:n] and del x[0:n] partition x",
    "DSP0200 Open->Pull pairing (frozen table)",
]

MAIN = 'pywbem_mock/_mainprovider.py'
ZERO_MEANINGFUL = ('MaxObjectCount', 'OperationTimeout')

PULL_FOR_OPEN = {
    'OpenEnumerateInstances': 'PullInstancesWithPath',
    'OpenEnumerateInstancePaths': 'PullInstancePaths',
    'OpenReferenceInstances': 'PullInstancesWithPath',
    'OpenReferenceInstancePaths': 'PullInstancePaths',
    'OpenAssociatorInstances': 'PullInstancesWithPath',
    'OpenAssociatorInstancePaths': 'PullInstancePaths',
    'OpenQueryInstances': 'PullInstances',
}


def _is_ctx_table(node):
    d = dotted(node)
    return d is not None and d.endswith('enumeration_contexts')


def table_writes(func):
    """[(kind, node)] kind in insert/delete/other for writes to the
    enumeration_contexts table inside func."""
    out = []
    for n in walk_no_nested(func.node):
        if isinstance(n, ast.Assign):
            for t in n.targets:
                if isinstance(t, ast.Subscript) and _is_ctx_table(t.value):
                    out.append(('insert', n))
                elif _is_ctx_table(t) and func.name != '__init__':
                    out.append(('replace', n))
        elif isinstance(n, ast.Delete):
            for t in n.targets:
                if isinstance(t, ast.Subscript) and _is_ctx_table(t.value):
                    out.append(('delete', n))
        elif isinstance(n, ast.Call) and isinstance(n.func, ast.Attribute) \
                and _is_ctx_table(n.func.value) and \
                n.func.attr in ('pop', 'clear', 'update', 'setdefault',
                                'popitem', '__setitem__', '__delitem__'):
            out.append((n.func.attr, n))
    return out


def branch_assigns(stmts):
    out = {}
    for s in stmts:
        if isinstance(s, ast.Assign) and len(s.targets) == 1 and \
                isinstance(s.targets[0], ast.Name):
            out[s.targets[0].id] = s.value
    return out


def no_return_funcs(repo, cls):
    """Methods of cls whose every path raises (body ends in raise and has
    no return)."""
    out = set()
    for n, f in cls.methods.items():
        if always_exits(f.body) and not any(
                isinstance(x, ast.Return) for x in walk_no_nested(f.node)) \
                and not any(isinstance(x, (ast.Yield, ast.YieldFrom))
                            for x in walk_no_nested(f.node)):
            out.add(n)
    return out


def run(repo, rep, tier):
    from .c12 import namespace_validated_first
    namespace_validated_first(repo, rep, 'C14.R12', lambda n: n.startswith('Open'))
    r1 = rep.rule('C14.R1', 'context table lifecycle (who may write; eos '
                  '<=> delete)')
    r2 = rep.rule('C14.R2', 'refuse before consuming')
    r3 = rep.rule('C14.R3', 'slices partition; same eos predicate')
    r4 = rep.rule('C14.R4', 'zero is not unset')
    r5 = rep.rule('C14.R5', 'validation is called first (client and server)')
    r6 = rep.rule('C14.R6', 'pull kinds map 1:1')

    close_always_releases(repo, rep)
    state_is_per_instance(repo, rep)
    timeout_zero_is_never(repo, rep, 'C14.R15')
    from .c13 import adapter_keys_agree
    adapter_keys_agree(repo, rep, 'C14.R14', lambda op: op.startswith(
        ('Open', 'Pull', 'Close')), 40)
    from ..argorder import argument_order_rule
    argument_order_rule(repo, rep, 'C14.R13',
                        ('pywbem_mock/_mainprovider.py',
                         'pywbem_mock/_wbemconnection_mock.py',
                         'pywbem/_cim_operations.py'), 300)
    mp = repo.cls(MAIN, 'MainProvider')
    # ---------------- R1 who may write ----------------------------------
    allowed = {'_open_response': {'insert'}, '_pull_response': {'delete'},
               'CloseEnumeration': {'delete'}}
    for m in repo.modules.values():
        if not m.relpath.startswith('pywbem_mock/'):
            continue
        for f in m.all_funcs():
            ws = table_writes(f)
            for kind, node in ws:
                r1.sites += 1
                ok = f.cls is not None and f.cls.name == 'MainProvider' and \
                    kind in allowed.get(f.name, ())
                if not ok and f.cls is not None and \
                        f.cls.name == 'MainProvider' and \
                        f.name.startswith('_'):
                    # a private helper: the write belongs to its callers
                    callers = [g for g in mp.methods.values() if any(
                        isinstance(c, ast.Call) and
                        dotted(c.func) == 'self.' + f.name
                        for c in walk_no_nested(g.node))]
                    ok = bool(callers) and all(
                        kind in allowed.get(g.name, ()) for g in callers)
                r1.ob(ok, '%s:%s' % (f.qualname, kind),
                      {'writer': f.qualname, 'kind': kind,
                       'stmt': norm(node, 80)})
                r1.functions.add(f.fq)
                if not ok:
                    rep.finding(r1, f.qualname, norm(node, 80),
                                'foreign-writer', m.relpath, node.lineno,
                                'enumeration_contexts is written (%s) outside '
                                'the open/pull/close lifecycle functions'
                                % kind)
    opn = mp.methods.get('_open_response')
    pul = mp.methods.get('_pull_response')
    cls_ = mp.methods.get('CloseEnumeration')
    if not (opn and pul and cls_):
        raise AnalysisError('_open_response/_pull_response/CloseEnumeration '
                            'vanished')

    from ..paths import return_paths

    def ctx_writes(effects):
        ins, dels = [], []
        for st in effects:
            if isinstance(st, ast.Assign):
                for t in st.targets:
                    if isinstance(t, ast.Subscript) and _is_ctx_table(t.value):
                        ins.append(st)
            elif isinstance(st, ast.Delete):
                for t in st.targets:
                    if isinstance(t, ast.Subscript) and _is_ctx_table(t.value):
                        dels.append(st)
        return ins, dels

    def bounds(slc):
        lo = norm(slc.lower) if slc.lower is not None else '0'
        hi = norm(slc.upper) if slc.upper is not None else None
        return lo, hi, slc.step is None

    for func, kind in ((opn, 'insert'), (pul, 'delete')):
        paths = return_paths(func)
        if paths is None:
            raise AnalysisError('%s: too many paths' % func.qualname)
        rows = []
        for p_ in paths:
            v = p_.resolve(p_.value) if p_.value is not None else None
            if not (isinstance(v, ast.Tuple) and len(v.elts) == 3):
                continue
            rows.append((p_, v, const_str(v.elts[1])))
        if not rows:
            raise AnalysisError('%s: eos branches not found' % func.qualname)
        node = func.node
        eos_vals = {e for _, _, e in rows}
        if eos_vals != {'TRUE', 'FALSE'}:
            rep.finding(r1, func.qualname, 'eos', 'eos-values', MAIN,
                        node.lineno, 'eos is not TRUE on some return paths '
                        'and FALSE on the others (%s)' % sorted(
                            str(x) for x in eos_vals))
            continue
        tpaths = [(p_, v) for p_, v, e in rows if e == 'TRUE']
        fpaths = [(p_, v) for p_, v, e in rows if e == 'FALSE']
        # ---- R1: eos <=> context table write ------------------------------
        if kind == 'insert':
            ok = all(ctx_writes(p_.effects)[0] for p_, _ in fpaths) and \
                not any(ctx_writes(p_.effects)[0] for p_, _ in tpaths)
            why = 'the context is registered exactly on the eos=FALSE paths'
        else:
            ok = all(ctx_writes(p_.effects)[1] for p_, _ in tpaths) and \
                not any(ctx_writes(p_.effects)[1] for p_, _ in fpaths)
            why = 'the context is deleted exactly on the eos=TRUE paths'
        r1.ob(ok, func.name + ':eos-iff-' + kind, {'function': func.name,
                                                  'fact': why,
                                                  'paths': len(rows)})
        if not ok:
            rep.finding(r1, func.qualname, 'eos/' + kind, 'eos-mismatch',
                        MAIN, node.lineno, 'not: ' + why + ' (a context '
                        'stays open after eos, or is dropped while objects '
                        'remain)')
        ok = all(const_str(v.elts[2]) == '' for _, v in tpaths) and \
            all(const_str(v.elts[2]) != '' for _, v in fpaths)
        r1.ob(ok, func.name + ':context-id')
        if not ok:
            rep.finding(r1, func.qualname, 'context_id', 'context-id', MAIN,
                        node.lineno, 'the returned context id is not "" '
                        'exactly when eos is TRUE')
        if kind == 'delete':
            # the context key: the subscript used for the table lookup
            keys = {norm(x.slice) for p_, _, _ in rows
                    for st_ in p_.effects for x in ast.walk(st_)
                    if isinstance(x, ast.Subscript) and
                    _is_ctx_table(x.value) and isinstance(x.ctx, ast.Load)}
            ok = len(keys) == 1 and all(norm(v.elts[2]) in keys
                                        for _, v in fpaths)
            r1.ob(ok, func.name + ':same-context')
            if not ok:
                rep.finding(r1, func.qualname, 'context_id', 'context-change',
                            MAIN, node.lineno, 'a pull that is not exhausted '
                            'does not return the same context')
            dels = [d for p_, _ in tpaths for d in ctx_writes(p_.effects)[1]]
            ok = bool(dels) and all(norm(d.targets[0].slice) in keys
                                    for d in dels)
            r1.ob(ok, func.name + ':delete-key')
            if not ok and dels:
                rep.finding(r1, func.qualname, norm(dels[0]), 'delete-key',
                            MAIN, dels[0].lineno, 'deletes another context')
        # ---- R3: eos predicate, slices ------------------------------------
        r3.sites += 1
        r3.functions.add(func.fq)

        def len_fact(p_):
            """(list text, bound text, eos_true_when) from a fact
            len(L) <= n / len(L) > n on the path"""
            for e, pol in p_.facts:
                if isinstance(e, ast.Compare) and len(e.ops) == 1 and \
                        isinstance(e.left, ast.Call) and \
                        dotted(e.left.func) == 'len' and \
                        isinstance(e.comparators[0], ast.Name):
                    op = e.ops[0]
                    if isinstance(op, ast.LtE):
                        le = pol
                    elif isinstance(op, ast.Gt):
                        le = not pol
                    elif isinstance(op, ast.Lt):
                        return (norm(e.left.args[0]),
                                e.comparators[0].id, 'strict', e)
                    elif isinstance(op, ast.GtE):
                        return (norm(e.left.args[0]),
                                e.comparators[0].id, 'strict', e)
                    else:
                        continue
                    return (norm(e.left.args[0]), e.comparators[0].id, le, e)
            return None
        tf = [len_fact(p_) for p_, _ in tpaths]
        ff = [len_fact(p_) for p_, _ in fpaths]
        good = all(x is not None and x[2] is True for x in tf) and \
            all(x is not None and x[2] is False for x in ff) and \
            len({(x[0], x[1]) for x in tf + ff}) == 1
        anyf = next((x for x in tf + ff if x is not None), None)
        r3.ob(good, func.name + ':eos-predicate',
              {'function': func.name,
               'test': norm(anyf[3]) if anyf else None})
        if not good:
            rep.finding(r3, func.qualname, norm(anyf[3]) if anyf else 'eos',
                        'eos-predicate', MAIN,
                        anyf[3].lineno if anyf else node.lineno,
                        'end of sequence is not decided by '
                        'len(objects) <= max_obj_cnt (eos while objects '
                        'remain, or an extra empty pull)')
            continue
        lenarg, maxvar = tf[0][0], tf[0][1]
        # TRUE paths return the whole list
        ok = all(norm(p_.resolve(v.elts[0])) == norm(p_.resolve(
            ast.parse(lenarg, mode='eval').body)) for p_, v in tpaths)
        r3.ob(ok, func.name + ':true-returns-all')
        if not ok:
            rep.finding(r3, func.qualname, 'eos branch', 'not-all', MAIN,
                        node.lineno, 'the eos=TRUE path does not return '
                        'all remaining objects')
        # FALSE paths: the returned objects are L[0:max], taken before
        # `del L[0:max]`
        for p_, v in fpaths:
            objs = p_.value.elts[0] if isinstance(p_.value, ast.Tuple) \
                else None
            rv = p_.resolve(v.elts[0])
            # the slice as written on the path (one definition step)
            sl = None
            sl_pos = None
            cand = objs
            if isinstance(cand, ast.Name) and cand.id in p_.env:
                sl, sl_pos = p_.env[cand.id]
            elif isinstance(p_.value, ast.Name) and \
                    p_.value.id in p_.env:
                tup = p_.env[p_.value.id][0]
                if isinstance(tup, ast.Tuple) and \
                        isinstance(tup.elts[0], ast.Name) and \
                        tup.elts[0].id in p_.env:
                    sl, sl_pos = p_.env[tup.elts[0].id]
            elif isinstance(cand, ast.Subscript):
                sl, sl_pos = cand, len(p_.effects)
            dl = [(i, st) for i, st in enumerate(p_.effects)
                  if isinstance(st, ast.Delete) and
                  isinstance(st.targets[0], ast.Subscript) and
                  isinstance(st.targets[0].slice, ast.Slice) and
                  not _is_ctx_table(st.targets[0].value)]
            ok = isinstance(sl, ast.Subscript) and \
                isinstance(sl.slice, ast.Slice) and \
                norm(sl.value) == lenarg and len(dl) == 1 and \
                norm(dl[0][1].targets[0].value) == lenarg and \
                bounds(sl.slice) == bounds(dl[0][1].targets[0].slice) == \
                ('0', maxvar, True) and sl_pos is not None and \
                sl_pos < dl[0][0]
            r3.ob(ok, func.name + ':slices',
                  {'returned': norm(sl) if sl is not None else None,
                   'deleted': norm(dl[0][1]) if dl else None})
            if not ok:
                rep.finding(r3, func.qualname,
                            '%s / %s' % (norm(sl) if sl is not None else None,
                                         norm(dl[0][1]) if dl else None),
                            'slice-mismatch', MAIN, node.lineno,
                            'returned slice and deleted slice of the object '
                            'list do not have the same bounds [0:%s], or the '
                            'slice is taken after the deletion (objects '
                            'lost or delivered twice)' % maxvar)
                break
    # CloseEnumeration: every path that returns has removed the context it
    # knows to be in the table; every path that refuses because the context
    # is not in the table does so with INVALID_ENUMERATION_CONTEXT
    from ..paths import return_paths
    cpaths = return_paths(cls_, with_raises=True)
    if not cpaths:
        raise AnalysisError('CloseEnumeration: paths cannot be enumerated')

    def member(pth):
        """True / False / None: the path knows ctx in / not in the table"""
        for t, pol in pth.facts:
            if isinstance(t, ast.Compare) and len(t.ops) == 1 and \
                    _is_ctx_table(t.comparators[0]):
                if isinstance(t.ops[0], ast.In):
                    return pol
                if isinstance(t.ops[0], ast.NotIn):
                    return not pol
        return None
    ok = True
    n_ret = n_ref = 0
    for pth in cpaths:
        m = member(pth)
        if pth.raised is None:
            n_ret += 1
            dl = [st for st in pth.effects if isinstance(st, ast.Delete) and
                  isinstance(st.targets[0], ast.Subscript) and
                  _is_ctx_table(st.targets[0].value)]
            pops = [c for st in pth.effects for c in ast.walk(st)
                    if isinstance(c, ast.Call) and
                    isinstance(c.func, ast.Attribute) and
                    c.func.attr == 'pop' and _is_ctx_table(c.func.value)]
            if m is not True or not (dl or pops):
                ok = False
        elif m is False:
            n_ref += 1
            if 'CIM_ERR_INVALID_ENUMERATION_CONTEXT' not in norm(
                    pth.raised, 500):
                ok = False
    if not n_ret or not n_ref:
        ok = False
    r1.ob(ok, 'CloseEnumeration:shape')
    if not ok:
        rep.finding(r1, cls_.qualname, 'if ctx in table: del ... else raise',
                    'close-shape', MAIN, cls_.node.lineno,
                    'CloseEnumeration does not delete a known context and '
                    'refuse an unknown one with '
                    'CIM_ERR_INVALID_ENUMERATION_CONTEXT')

    # ---------------- R2 -------------------------------------------------
    # Refuse before consuming, judged per return path (helpers inlined): each
    # statement that consumes objects or deletes the context must come after
    # (a) a lookup of the context table, (b) the namespace validation and
    # (c) the established fact that the pull kind matches.
    r2.sites += 1
    r2.functions.add(pul.fq)
    ppaths = return_paths(pul)
    if ppaths is None:
        raise AnalysisError('_pull_response: too many paths')
    seen_mut = {}
    for p_ in ppaths:
        look = [i for i, st in enumerate(p_.effects) if any(
            isinstance(x, ast.Subscript) and _is_ctx_table(x.value) and
            isinstance(x.ctx, ast.Load) for x in ast.walk(st))]
        nsv = [i for i, st in enumerate(p_.effects) if any(
            isinstance(c, ast.Call) and
            (dotted(c.func) or '').endswith('validate_namespace')
            for c in ast.walk(st))]
        ptf = []
        for (e, pol), pos in zip(p_.facts, p_.fact_pos):
            if isinstance(e, ast.Compare) and len(e.ops) == 1 and \
                    'pull_type' in norm(p_.resolve(e), 300):
                if (isinstance(e.ops[0], ast.NotEq) and not pol) or \
                        (isinstance(e.ops[0], ast.Eq) and pol):
                    ptf.append(pos)
        for i, st in enumerate(p_.effects):
            if not isinstance(st, ast.Delete):
                continue
            key = norm(st, 60)
            res = seen_mut.setdefault(key, {'lookup': True, 'ns': True,
                                            'ptype': True, 'node': st})
            if not any(x < i for x in look):
                res['lookup'] = False
            if not any(x < i for x in nsv):
                res['ns'] = False
            if not any(x <= i for x in ptf):
                res['ptype'] = False
    if not seen_mut:
        raise AnalysisError('_pull_response: no consuming statement found')
    for key, res in seen_mut.items():
        for what, flag in (('context lookup (KeyError -> '
                            'INVALID_ENUMERATION_CONTEXT)', 'lookup'),
                           ('namespace validation', 'ns'),
                           ('pull-type check', 'ptype')):
            ok = res[flag]
            r2.ob(ok, '_pull_response:%s:%s' % (what[:12], key[:40]),
                  {'mutation': key, 'guard': what, 'precedes': ok})
            if not ok:
                rep.finding(r2, pul.qualname, key, 'unguarded:' +
                            what.split(' ')[0], MAIN, res['node'].lineno,
                            'objects are consumed / the context is deleted '
                            'on a path that has not passed the ' + what)
    # ---------------- R9: context ids are never reused ----------------------
    # The id under which _open_response registers a context must come from a
    # source that does not repeat while the server lives (uuid, or a counter
    # that only grows).  Anything computed from the context table itself
    # (its size, its keys) repeats as soon as a context is closed: a new
    # session then overwrites a live one, or a stale context is accepted.
    r9 = rep.rule('C14.R9', 'enumeration context ids come from a '
                  'non-repeating source')
    ins_keys = []
    for p_ in (return_paths(opn) or []):
        for st in p_.effects:
            if isinstance(st, ast.Assign):
                for t in st.targets:
                    if isinstance(t, ast.Subscript) and \
                            _is_ctx_table(t.value):
                        ins_keys.append((p_, t.slice, st))
    if not ins_keys:
        raise AnalysisError('_open_response: context registration not found')
    seen_k = set()
    for p_, key, st in ins_keys:
        kexpr = p_.resolve(key)
        ktxt = norm(kexpr, 200)
        if ktxt in seen_k:
            continue
        seen_k.add(ktxt)
        r9.sites += 1
        r9.functions.add(opn.fq)
        srcs = [kexpr]
        gen = None
        for c in ast.walk(kexpr):
            if isinstance(c, ast.Call):
                d = dotted(c.func) or ''
                if d.startswith('self.') and d.count('.') == 1:
                    gen = mp.find_method(d[5:])
                    if gen is not None:
                        r9.functions.add(gen.fq)
                        srcs.append(gen.node)
        reads_table = any(
            isinstance(x, ast.Attribute) and x.attr == 'enumeration_contexts'
            for s_ in srcs for x in ast.walk(s_))
        good = any(
            isinstance(c, ast.Call) and (dotted(c.func) or '').split('.')[-1]
            in ('uuid4', 'uuid1', 'token_hex', 'token_urlsafe', 'next')
            for s_ in srcs for c in ast.walk(s_))
        ok = good and not reads_table
        r9.ob(ok or not reads_table, 'context-id:' + ktxt[:40],
              {'key': ktxt, 'generator': gen.qualname if gen else None,
               'reads_context_table': reads_table,
               'non_repeating_source': good})
        if reads_table:
            rep.finding(r9, (gen or opn).qualname, ktxt, 'id-from-table',
                        MAIN, (gen.node if gen else st).lineno,
                        'the context id is computed from the context table '
                        '(e.g. its current size): ids repeat once a context '
                        'has been closed, so a new enumeration can overwrite '
                        'a live one and a finished context can be accepted '
                        'again')
        elif not good:
            r9.undecided.append('source of the context id not recognised: '
                                + ktxt)
    # ---------------- R4 -------------------------------------------------
    for func in (opn, pul, mp.methods.get('_validate_open_params')):
        if func is None:
            continue
        r4.functions.add(func.fq)
        # names aliasing the zero-meaningful parameters
        alias = {p: p for p in func.params if p in ZERO_MEANINGFUL}
        for n in walk_no_nested(func.node):
            if isinstance(n, ast.Assign) and len(n.targets) == 1 and \
                    isinstance(n.targets[0], ast.Name) and \
                    isinstance(n.value, ast.Name) and n.value.id in alias:
                alias[n.targets[0].id] = alias[n.value.id]
        for n in walk_no_nested(func.node):
            tests = []
            if isinstance(n, (ast.If, ast.IfExp, ast.While)):
                tests.append(n.test)
            if isinstance(n, ast.BoolOp) and isinstance(n.op, ast.Or):
                tests.extend(n.values[:-1])
            for t in tests:
                # truthiness of the bare name / `not name`
                bare = None
                if isinstance(t, ast.Name) and t.id in alias:
                    bare = t.id
                if isinstance(t, ast.UnaryOp) and isinstance(t.op, ast.Not) \
                        and isinstance(t.operand, ast.Name) and \
                        t.operand.id in alias:
                    bare = t.operand.id
                if bare is None:
                    if any(isinstance(x, ast.Name) and x.id in alias
                           for x in ast.walk(t)):
                        r4.sites += 1
                        r4.ob(True, '%s:%s' % (func.name, norm(t)),
                              {'function': func.name, 'test': norm(t)})
                    continue
                r4.sites += 1
                # is this truthiness test used to default / skip?  A test
                # `if ot:` that only guards *validation of a non-zero value*
                # is harmless (0 needs no range check); assigning a default
                # under it conflates 0 and None.
                defaulting = False
                if isinstance(n, ast.If):
                    branch = n.body if isinstance(t, ast.UnaryOp) else \
                        n.orelse
                    for s in branch:
                        for x in ast.walk(s):
                            if isinstance(x, ast.Assign) and any(
                                    isinstance(tt, ast.Name) and
                                    tt.id in alias for tt in x.targets):
                                defaulting = True
                elif isinstance(n, (ast.IfExp, ast.BoolOp)):
                    defaulting = True
                r4.ob(not defaulting, '%s:%s' % (func.name, norm(t)),
                      {'function': func.name, 'test': norm(t),
                       'defaults_under_truthiness': defaulting})
                if defaulting:
                    rep.finding(r4, func.qualname, norm(n.test if
                                isinstance(n, ast.If) else n, 60),
                                'truthiness-default', MAIN, n.lineno,
                                '%s is replaced by a default when it is '
                                'falsy: %s=0 is treated like None although '
                                'DSP0200 gives 0 its own meaning (deliver '
                                'no objects)' % (alias[bare], alias[bare]))

    # ---------------- R5 -------------------------------------------------
    ops = {op.name: op for op in operations(repo)}
    for name, op in sorted(ops.items()):
        need = []
        if name.startswith('Open') or name.startswith('Pull'):
            need.append('_validate_MaxObjectCount_OpenPull')
        if name.startswith('Pull') or name == 'CloseEnumeration':
            need.append('_validate_context')
        if not need:
            continue
        r5.sites += 1
        r5.functions.add(op.func.fq)
        cfg = CFG(op.func.node)
        env = None
        for st in cfg.stmts():
            if any(c is x for c in op.envelope_calls for x in ast.walk(st)) \
                    and not isinstance(st, (ast.Try, ast.If, ast.For,
                                            ast.While, ast.With)):
                env = st
        for v in need:
            vs = [st for st in cfg.stmts() if isinstance(st, ast.Expr) and
                  isinstance(st.value, ast.Call) and
                  dotted(st.value.func) == v]
            ok = env is not None and any(cfg.dominates(x, env) for x in vs)
            r5.ob(ok, '%s:%s' % (name, v), {'operation': name,
                                            'validator': v})
            if not ok:
                rep.finding(r5, op.func.qualname, v, 'not-validated', OPS,
                            op.func.node.lineno, '%s is not called on every '
                            'path before the request is sent' % v)
    server_ops = [n for n in mp.methods if n in PULL_FOR_OPEN or
                  n.startswith('Pull') or n == 'CloseEnumeration']
    for n in sorted(server_ops):
        f = mp.methods[n]
        r5.sites += 1
        r5.functions.add(f.fq)
        from ..inline import Flat
        from ..cfg import first_effective
        first = first_effective(
            Flat(f, keep=('_validate_pull_operations_enabled',)).body)
        ok = isinstance(first, ast.Expr) and isinstance(first.value, ast.Call)\
            and dotted(first.value.func) == \
            'self._validate_pull_operations_enabled'
        r5.ob(ok, 'server:%s:enabled-first' % n)
        if not ok:
            rep.finding(r5, f.qualname, '_validate_pull_operations_enabled',
                        'not-first', MAIN, f.node.lineno,
                        'server-side %s does not check that pull operations '
                        'are enabled before doing anything' % n)
    # _validate_pull_operations_enabled raises NOT_SUPPORTED when disabled
    ve = mp.methods.get('_validate_pull_operations_enabled')
    ok = ve is not None and any(
        isinstance(s, ast.If) and
        eqsrc(s.test, 'self.disable_pull_operations') and
        always_exits(s.body) and 'CIM_ERR_NOT_SUPPORTED' in norm(s.body[-1],
                                                                 400)
        for s in ve.body)
    r5.ob(ok, 'server:enabled-check')
    if not ok:
        rep.finding(r5, '_validate_pull_operations_enabled', 'raise',
                    'enabled-check', MAIN, ve.node.lineno if ve else 0,
                    'does not raise CIM_ERR_NOT_SUPPORTED when pull '
                    'operations are disabled')

    # ---------------- R8: refusals can be built ---------------------------
    r8 = rep.rule('C14.R8', 'error messages of the pull machinery can be '
                  'built (well-formed format strings)')
    from ..guards import run_format_rule
    pull_funcs = set(PULL_FOR_OPEN) | {
        'PullInstancesWithPath', 'PullInstancePaths', 'PullInstances',
        'CloseEnumeration', '_open_response', '_pull_response',
        '_openquery_response', '_validate_open_params',
        '_validate_pull_operations_enabled'}
    run_format_rule(repo, rep, r8, lambda f: (
        f.file == MAIN and f.name in pull_funcs) or (
        f.file == OPS and f.name in (
            '_validate_MaxObjectCount_OpenPull', '_validate_context',
            '_validate_MaxObjectCount_Iter', '_validate_OperationTimeout')))
    pull_kinds_rule(repo, rep, r6, mp)
    pull_answers_come_from_the_context(repo, rep, mp)
    context_is_registered_last(repo, rep, mp)
    from .c13 import adapters_forward_every_filter
    adapters_forward_every_filter(
        repo, rep, 'C14.R16', lambda n: n[7:].startswith(
            ('Open', 'Pull', 'Close')), 10)


def pull_answers_come_from_the_context(repo, rep, mp):
    """C14.R17: a Pull handler of the mock server answers only through
    _pull_response(), which looks the context up (unknown, exhausted or
    closed contexts are refused), checks its namespace and its pull kind
    and decides end-of-sequence.  A return path that builds the answer
    itself (e.g. a short cut for MaxObjectCount=0) accepts a context that
    no longer exists and reports eos=FALSE for it: a client polling with
    keep-alive pulls never terminates, and a closed session still
    "answers"."""
    from ..inline import Flat
    from ..paths import return_paths
    r17 = rep.rule('C14.R17', 'every answer of a Pull handler is produced by '
                   '_pull_response()')
    n = 0
    for name, f in sorted(mp.methods.items()):
        if not name.startswith('Pull'):
            continue
        n += 1
        r17.sites += 1
        r17.functions.add(f.fq)
        ff = Flat(f, keep=('_pull_response',), aliases=True)
        paths = return_paths(ff, max_paths=64, inline=False)
        if not paths:
            raise AnalysisError('%s: return paths not enumerable' % name)
        bad = []
        for p_ in paths:
            v = p_.resolve(p_.value) if p_.value is not None else None
            ok = isinstance(v, ast.Call) and \
                dotted(v.func) == 'self._pull_response'
            if not ok:
                bad.append(p_)
        r17.ob(not bad, name, {'return_paths': len(paths)})
        for p_ in bad[:1]:
            st = p_.ret_stmt if p_.ret_stmt is not None else f.node
            rep.finding(r17, f.qualname, norm(st, 60), 'answer-without-'
                        'context', MAIN, getattr(st, 'lineno',
                                                 f.node.lineno),
                        '%s returns %s on a path that has not gone through '
                        '_pull_response(): the enumeration context is not '
                        'looked up, so an exhausted, closed or unknown '
                        'context is answered instead of being refused with '
                        'CIM_ERR_INVALID_ENUMERATION_CONTEXT'
                        % (name, norm(p_.value, 50)
                           if p_.value is not None else 'None'))
    if n != 3:
        raise AnalysisError('expected 3 server-side Pull operations, found '
                            '%d' % n)


def pull_kinds_rule(repo, rep, r6, mp):
    """every Open operation of the mock server registers its enumeration
    context under the pull operation DSP0200 pairs it with, and every Pull
    operation accepts exactly its own kind (C14.R6; also C13: a context
    registered under another kind can never be continued, so the
    Open/Pull/Iter variant delivers only its first batch)"""
    # ---------------- R6 -------------------------------------------------
    noret = no_return_funcs(repo, mp)
    pulls = {}
    for n, f in mp.methods.items():
        if n.startswith('Pull'):
            from ..inline import Flat as _FlatP
            from ..flow import value_of as _voP
            fp = _FlatP(f, keep=('_pull_response',), aliases=True)
            for c in walk_no_nested(fp.node):
                if isinstance(c, ast.Call) and \
                        dotted(c.func) == 'self._pull_response' and c.args:
                    pulls[n] = const_str(c.args[0]) or \
                        const_str(_voP(f, c.args[0]))
    for n, lit in sorted(pulls.items()):
        r6.sites += 1
        ok = lit == n
        r6.ob(ok, 'pull:%s' % n, {'pull': n, 'req_type': lit})
        if not ok:
            rep.finding(r6, 'MainProvider.' + n, repr(lit), 'req-type', MAIN,
                        mp.methods[n].node.lineno,
                        '%s checks contexts against pull type %r' % (n, lit))
    if len(pulls) != 3:
        raise AnalysisError('expected 3 server-side Pull operations')
    for n, want in sorted(PULL_FOR_OPEN.items()):
        f = mp.methods.get(n)
        if f is None:
            raise AnalysisError('MainProvider.%s vanished' % n)
        r6.sites += 1
        r6.functions.add(f.fq)
        reg = None
        from ..inline import Flat as _Flat
        f_orig = f
        f = _Flat(f, keep=('_open_response', '_openquery_response'),
                  aliases=True)
        from ..model import call_arguments as _ca
        for c in walk_no_nested(f.node):
            if isinstance(c, ast.Call) and dotted(c.func) in (
                    'self._open_response', 'self._openquery_response'):
                tgt = mp.find_method(dotted(c.func)[5:])
                if tgt is None:
                    continue
                given, _rest = _ca(f.node, c, [
                    p_ for p_ in tgt.params if p_ != 'self'], f_orig)
                if 'pull_type' in given:
                    reg = c
                    reg_pt = given['pull_type']
        if reg is None:
            rep.finding(r6, f.qualname, '_open_response', 'no-register',
                        MAIN, f.node.lineno, 'no call of _open_response')
            continue
        pt = reg_pt
        if isinstance(pt, ast.Name):
            # a local bound once to the literal
            defs_ = [a_.value for a_ in walk_no_nested(f.node)
                     if isinstance(a_, ast.Assign) and
                     len(a_.targets) == 1 and norm(a_.targets[0]) == pt.id]
            if len(defs_) == 1:
                pt = defs_[0]
        lit = const_str(pt)
        # dead site: preceded (dominated) by a call to a method that never
        # returns
        dead = None
        for s in f.body:
            if any(x is reg for x in ast.walk(s)):
                break
            for c in walk_no_nested(s):
                if isinstance(c, ast.Call) and dotted(c.func) and \
                        dotted(c.func).startswith('self.') and \
                        dotted(c.func)[5:] in noret and \
                        not isinstance(s, (ast.If, ast.Try, ast.For,
                                           ast.While)):
                    dead = dotted(c.func)
        if dead:
            r6.notes.append('%s: registering site unreachable (follows %s '
                            'which always raises); literal %r not judged'
                            % (n, dead, lit))
            r6.ob(True, 'open:%s:unreachable' % n,
                  {'open': n, 'unreachable_after': dead, 'pull_type': lit})
            continue
        ok = lit == want
        r6.ob(ok, 'open:%s' % n, {'open': n, 'pull_type': lit,
                                  'dsp0200': want})
        if not ok:
            rep.finding(r6, f.qualname, repr(lit), 'pull-type', MAIN,
                        reg.lineno, '%s registers pull type %r but DSP0200 '
                        'pairs it with %s: the matching pull is refused'
                        % (n, lit, want))


# calls that may refuse a CloseEnumeration before the context is removed
CLOSE_MAY_REFUSE = {
    '_validate_pull_operations_enabled':
        'server-wide switch; with pull operations disabled no context can '
        'be opened either',
}


def close_always_releases(repo, rep):
    """C14.R10: an open enumeration context can always be closed.  On the
    path of CloseEnumeration (server-side adapter, then provider) nothing
    may refuse the request before the context is removed from the table,
    except that the context is unknown.  A check that depends on other
    state - e.g. validating the namespace the client sends along, which may
    have been removed meanwhile - leaves a context that neither Pull nor
    Close can remove any more."""
    from ..cfg import stmt_facts
    r10 = rep.rule('C14.R10', 'CloseEnumeration removes a known context '
                   'unconditionally')
    MOCKF = 'pywbem_mock/_wbemconnection_mock.py'
    ad = repo.cls(MOCKF, 'FakedWBEMConnection').methods.get(
        '_imeth_CloseEnumeration')
    pv = repo.cls(MAIN, 'MainProvider').methods.get('CloseEnumeration')
    if ad is None or pv is None:
        raise AnalysisError('CloseEnumeration adapter / provider vanished')
    r10.functions.update([ad.fq, pv.fq])
    # adapter: only hands the context to the provider
    r10.sites += 1
    extra = []
    for c in walk_no_nested(ad.node):
        if isinstance(c, ast.Call):
            d = dotted(c.func) or ''
            if d.endswith('.CloseEnumeration') or d in ('params.get',):
                continue
            extra.append(c)
    r10.ob(not extra, ad.qualname, {'other_calls': [norm(c, 50)
                                                    for c in extra]})
    for c in extra[:1]:
        rep.finding(r10, ad.qualname, norm(c, 60), 'refuses-before-close',
                    MOCKF, c.lineno,
                    '%s runs before the provider removes the context: when '
                    'it raises (e.g. CIM_ERR_INVALID_NAMESPACE after the '
                    'namespace of the session was removed) the context '
                    'stays in enumeration_contexts and can never be closed'
                    % norm(c, 50))
    # provider: before the delete only the unknown-context refusal
    facts = stmt_facts(pv.node)
    dels = [st for st in facts if 'enumeration_contexts' in norm(st) and
            (isinstance(st, ast.Delete) or
             (isinstance(st, (ast.Expr, ast.Assign)) and
              isinstance(st.value, ast.Call) and
              isinstance(st.value.func, ast.Attribute) and
              st.value.func.attr == 'pop'))]
    if len(dels) > 1:
        raise AnalysisError('CloseEnumeration: more than one removal of the '
                            'context')
    if not dels:
        r10.sites += 1
        r10.ob(False, pv.qualname, {'removal': None})
        rep.finding(r10, pv.qualname, 'del self.enumeration_contexts[ctx]',
                    'never-released', MAIN, pv.node.lineno,
                    'CloseEnumeration never removes the context from the '
                    'table')
        return
    r10.sites += 1
    bad = []
    for st, (fs, _t) in facts.items():
        if st.lineno >= dels[0].lineno and not isinstance(st, ast.Raise):
            continue
        if isinstance(st, ast.Raise):
            known = any(('enumeration_contexts' in norm(t)) for t, p in fs)
            if not known:
                bad.append(st)
        elif isinstance(st, ast.Expr) and isinstance(st.value, ast.Call):
            d = (dotted(st.value.func) or '').split('.')[-1]
            if d not in CLOSE_MAY_REFUSE:
                bad.append(st)
    r10.ob(not bad, pv.qualname, {'allowed': sorted(CLOSE_MAY_REFUSE)})
    for st in bad[:1]:
        rep.finding(r10, pv.qualname, norm(st, 60), 'refuses-before-close',
                    MAIN, st.lineno,
                    '%s can refuse CloseEnumeration for a context that is '
                    'in the table: the context is never released'
                    % norm(st, 50))


def state_is_per_instance(repo, rep):
    """C14.R11: the enumeration context table (and every other mutable
    container the mock server changes through `self`) belongs to one
    provider object.  A dict / list / set created in the class body is one
    object shared by all instances: every FakedWBEMConnection of the
    process then shares one context table - a foreign context is accepted,
    a pull on one server consumes the objects of another server's session,
    contexts stay open on servers that never opened them."""
    r11 = rep.rule('C14.R11', 'mutable containers changed through self are '
                   'created per instance, not in the class body')
    MUT = ('append', 'add', 'update', 'pop', 'remove', 'clear', 'insert',
           'setdefault', 'extend', 'popitem')
    ncls = 0
    for rel, m in sorted(repo.modules.items()):
        if not m.relpath.startswith('pywbem_mock/'):
            continue
        for c in m.classes.values():
            ncls += 1
            for st in c.node.body:
                if not (isinstance(st, ast.Assign) and len(st.targets) == 1
                        and isinstance(st.targets[0], ast.Name)):
                    continue
                v = st.value
                mutable = isinstance(v, (ast.Dict, ast.List, ast.Set)) or (
                    isinstance(v, ast.Call) and dotted(v.func) in (
                        'dict', 'list', 'set', 'NocaseDict', 'OrderedDict',
                        'defaultdict'))
                if not mutable:
                    continue
                name = st.targets[0].id
                r11.sites += 1
                hit = None
                for k in [c] + [x for x in repo.subclasses_of(c.name)
                                if x is not c]:
                    rebound = any(
                        isinstance(n, ast.Attribute) and
                        isinstance(n.ctx, ast.Store) and
                        norm(n) == 'self.' + name
                        for f in k.methods.values()
                        for n in walk_no_nested(f.node)
                        if f.name == '__init__')
                    if rebound:
                        continue
                    for f in k.methods.values():
                        for n in walk_no_nested(f.node):
                            if isinstance(n, ast.Subscript) and \
                                    isinstance(n.ctx, (ast.Store, ast.Del)) \
                                    and norm(n.value) == 'self.' + name:
                                hit = hit or (f, n)
                            if isinstance(n, ast.Call) and \
                                    isinstance(n.func, ast.Attribute) and \
                                    n.func.attr in MUT and \
                                    norm(n.func.value) == 'self.' + name:
                                hit = hit or (f, n)
                r11.ob(hit is None, '%s.%s' % (c.name, name))
                if hit is not None:
                    f, n = hit
                    rep.finding(r11, c.name, '%s = %s' % (name, norm(v, 30)),
                                'shared-mutable-state', m.relpath, st.lineno,
                                '%s.%s is created once in the class body '
                                'and changed through self (e.g. %s in %s): '
                                'all %s objects of the process share it'
                                % (c.name, name, norm(n, 50), f.qualname,
                                   c.name))
    # the context table itself is created in MainProvider.__init__
    mp = repo.cls(MAIN, 'MainProvider')
    init = mp.methods.get('__init__')
    r11.sites += 1
    ok = init is not None and any(
        isinstance(n, ast.Assign) and
        norm(n.targets[0]) == 'self.enumeration_contexts'
        for n in walk_no_nested(init.node))
    r11.ob(ok, 'MainProvider.__init__:enumeration_contexts')
    if not ok:
        rep.finding(r11, 'MainProvider.__init__', 'self.enumeration_contexts',
                    'not-per-instance', MAIN,
                    init.node.lineno if init else mp.node.lineno,
                    'the enumeration context table is not created in '
                    'MainProvider.__init__: it is not per provider object')
    if ncls < 10:
        raise AnalysisError('C14.R11: only %d classes scanned' % ncls)


def expiry_tests(func):
    """comparisons of something against the stored operation timeout of an
    enumeration session"""
    out = []
    for n in walk_no_nested(func.node):
        if isinstance(n, ast.Compare) and len(n.ops) == 1 and \
                isinstance(n.ops[0], (ast.Gt, ast.GtE, ast.Lt, ast.LtE)):
            sides = [n.left, n.comparators[0]]
            for i, sd in enumerate(sides):
                txt = norm(sd, 200)
                other = sides[1 - i]
                elapsed = any(isinstance(x, ast.BinOp) and
                              isinstance(x.op, ast.Sub)
                              for x in ast.walk(other)) or any(
                    w in norm(other, 200).lower()
                    for w in ('elapsed', 'age', 'since'))
                if 'timeout' in txt.lower() and \
                        not isinstance(sd, ast.Constant) and elapsed:
                    out.append((n, sd))
    return out


def timeout_zero_is_never(repo, rep, rid):
    """An expiry test of an enumeration session honours OperationTimeout=0,
    which DSP0200 (and the Open... documentation) define as "never time
    out".  `elapsed > timeout` treats 0 as "expired at once": every Pull
    after an Open with OperationTimeout=0 is refused, so the enumeration
    never reaches eos and the Iter* generator raises after its first
    batch.  The comparison must run under a fact that the timeout is
    non-zero (truthy, != 0, > 0)."""
    from ..cfg import stmt_facts, expr_guards
    r = rep.rule(rid, 'expiry tests of enumeration sessions treat the '
                 'timeout 0 as never')
    mp = repo.cls(MAIN, 'MainProvider')
    n = 0
    for name, f in sorted(mp.methods.items()):
        tests = expiry_tests(f)
        if not tests:
            continue
        sf = stmt_facts(f.node)
        for cmp_, tmo in tests:
            n += 1
            r.sites += 1
            r.functions.add(f.fq)
            tt = norm(tmo, 200)
            st = next((s_ for s_ in sf if any(x is cmp_
                                              for x in ast.walk(s_))), None)
            fs = list(sf.get(st, ((), ()))[0]) if st is not None else []
            fs += list(expr_guards(st, cmp_)) if st is not None else []
            ok = False
            for t, pol in fs:
                if t is cmp_:
                    continue
                if norm(t, 200) == tt and pol:
                    ok = True
                if isinstance(t, ast.Compare) and len(t.ops) == 1 and \
                        norm(t.left, 200) == tt and \
                        isinstance(t.comparators[0], ast.Constant) and \
                        t.comparators[0].value == 0 and \
                        ((isinstance(t.ops[0], (ast.NotEq, ast.Gt)) and pol)
                         or (isinstance(t.ops[0], ast.Eq) and not pol)):
                    ok = True
            r.ob(ok, '%s|%s' % (name, norm(cmp_, 60)))
            if not ok:
                rep.finding(r, f.qualname, norm(cmp_, 70), 'zero-expires',
                            MAIN, cmp_.lineno,
                            'the session is expired by %s without a test '
                            'that the timeout is non-zero: OperationTimeout=0 '
                            '("never time out") makes every Pull fail with '
                            'an expired context' % norm(cmp_, 60))
    r.sites += 1
    r.ob(True, 'expiry-tests', {'found': n})
    probe = ast.parse("def f(self, c):\n    if now - c['time'] > "
                      "c['interoptimeout']:\n        pass\n").body[0]

    class _F:
        node = probe
    if len(expiry_tests(_F)) != 1:
        raise AnalysisError(rid + ' recogniser broken')


def context_is_registered_last(repo, rep, mp):
    """C14.R18: an Open...() handler registers the enumeration context (in
    _open_response()) as the last thing that can fail.  The client learns
    the context id only from the response; if a statement after the
    registration raises (the lookup of the query result class, a
    validation moved behind it), the Open fails, the client has no id to
    pull from or to close - and the context, with the whole remaining
    result, stays open on the server.  So on every way from the call of
    _open_response() to the end of the handler there is nothing but
    call-free assignments and the return of the values."""
    from ..inline import Flat
    r18 = rep.rule('C14.R18', 'nothing that can fail follows the '
                   'registration of the enumeration context in an Open '
                   'handler')
    n = 0
    for name, f0 in sorted(mp.methods.items()):
        if not name.startswith('Open'):
            continue
        f = Flat(f0, keep=('_open_response',))
        cfg = CFG(f.node)
        regs = [st for st in cfg.stmts() if not isinstance(
            st, (ast.If, ast.For, ast.While, ast.Try, ast.With)) and any(
                isinstance(c, ast.Call) and
                dotted(c.func) == 'self._open_response'
                for c in ast.walk(st))]
        if not regs:
            continue
        n += 1
        r18.sites += 1
        r18.functions.add(f0.fq)
        bad = []
        for rg in regs:
            for st in cfg.reachable(rg):
                if st is rg or not isinstance(st, ast.stmt):
                    continue
                if isinstance(st, (ast.If, ast.For, ast.While, ast.Try,
                                   ast.With)):
                    tests = [getattr(st, 'test', None),
                             getattr(st, 'iter', None)]
                    if any(t is not None and any(
                            isinstance(c, ast.Call) for c in ast.walk(t))
                            for t in tests):
                        bad.append(st)
                    continue
                if isinstance(st, ast.Raise) or any(
                        isinstance(c, ast.Call) for c in ast.walk(st)):
                    bad.append(st)
        r18.ob(not bad, name, {'after_registration':
                               [norm(b, 50) for b in bad][:3]})
        for b in bad[:1]:
            rep.finding(r18, f0.qualname, norm(b, 70),
                        'can-fail-after-registration', MAIN, b.lineno,
                        'this statement runs after _open_response() has '
                        'registered the enumeration context and can raise: '
                        'the Open then fails without the client ever '
                        'learning the context id, and the context stays '
                        'open on the server')
    if n < 7:
        raise AnalysisError('C14.R18: only %d Open handlers with a context '
                            'registration found' % n)
