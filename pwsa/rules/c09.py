"""C09 - the MOF compiler is total: success or MOFCompileError."""
import ast
import re

from ..model import (AnalysisError, walk_no_nested, dotted, norm, fold_const,
                     module_env, NotConst)
from ..escape import EscapeAnalysis, Esc
from ..guards import conv_guard_factory
from ..resolve import Resolver
from ..flow import possibly_unbound
from .. import rx

EXPLANATION = (
    "Exception-escape analysis of the MOF compiler: entry points "
    "compile_string/compile_file/compile_embedded_value; parser.parse() is "
    "resolved to all p_*/t_* actions (PLY calls them), p.parser.handle.<Op> "
    "to every BaseRepositoryConnection implementation in the repo plus a "
    "modelled CIMError (what a repository may raise), p.parser.server.* "
    "likewise. Everything that can propagate out of an entry point must be "
    "a MOFCompileError subclass (or OSError for a missing file): explicit "
    "raises in the CIM object constructors reached from grammar actions "
    "(type/value mismatches), unwrapped repository calls (also retries "
    "inside an `except CIMError` handler), uses of a regex match result "
    "before its None test, int()/float() token conversions not covered by "
    "the token's own regex (checked on the extracted pattern), and locals "
    "that may be unbound (definite-assignment analysis on the CFG) in the "
    "repository connection classes and grammar actions. Findings are "
    "reported at the frontier: the grammar action / method where the "
    "foreign exception enters compiler code. Does not decide termination "
    "of PLY or the correctness of reported positions; IndexError (e.g. the "
    "hex-escape scan of _fixStringValue) is outside the catalogue.")
ASSUMPTIONS = [
    "PLY invokes only p_*/t_* functions of the module and propagates their "
    "exceptions unchanged",
    "a CIM repository (WBEMConnection or mock) raises CIMError (pywbem.Error)",
    "assert statements are internal invariants (not modelled for C09)",
    "IndexError and decoding errors of open().read() are outside the "
    "catalogue",
]

# functions that validate/convert values and types supplied by MOF text:
# a raise originating here is triggerable by a type/value mismatch in MOF
VALUE_FUNCS = ('cimvalue', 'CIMInt.__new__', 'CIMDateTime.__init__',
               'CIMDateTime._to_int', '_check_array_parms',
               '_check_embedded_object', '_infer_type', 'cimtype',
               '_infer_embedded_object', 'MinutesFromUTC.__init__',
               'CIMInstanceName.from_wbem_uri',
               'CIMInstanceName._kbstr_to_cimval',
               'CIMClassName.from_wbem_uri', '_fixStringValue',
               '_build_flavors')

MOF = 'pywbem/_mof_compiler.py'
MOCKMOF = 'pywbem_mock/_mockmofwbemconnection.py'


def _r13_names_compared_caselessly(repo, rep, rid='C09.R13'):
    """C09.R13: the compiler compares CIM names (class names, reference
    classes, superclasses) without regard to lexical case, like the
    repositories, NocaseList and find_mof() it works with.  The dependency
    resolution of p_mp_createClass excludes the class being compiled from
    its own dependencies by such a comparison; a case-sensitive test makes
    a class that refers to itself in another spelling (`tst_node REF Next`
    in class TST_Node) its own unresolved dependency: find_mof() finds the
    file being compiled, compile_file() re-enters it, and the compile ends
    in RecursionError instead of terminating with a MOFCompileError."""
    from .. import names
    r13 = rep.rule(rid, 'CIM names are compared case-insensitively in '
                   'the MOF compiler')
    r13b = rep.rule(rid + 'b', 'no uncalled string method in a comparison '
                    '(MOF compiler)')
    names.run_name_rules(repo, rep, r13, r13b, lambda f: f.file == MOF,
                         modules=[MOF], api_classes=())
    if r13.sites < 3:
        raise AnalysisError('%s: only %d name comparisons found in the '
                            'MOF compiler' % (rid, r13.sites))


def run(repo, rep, tier):
    r1 = rep.rule('C09.R1', 'only MOFCompileError (or OSError for files) '
                  'escapes the compiler: value/type errors of object '
                  'construction')
    r2 = rep.rule('C09.R2', 'repository calls are wrapped')
    r3 = rep.rule('C09.R3', 'no use of a match result before its None test')
    r4 = rep.rule('C09.R4', 'definite assignment in repository connections '
                  'and grammar actions')
    r5 = rep.rule('C09.R5', 'token conversions are covered by the token '
                  'regex')
    r6 = rep.rule('C09.R6', 'per-compile parser state is re-initialised by every '
                  'entry point or reset in a finally')
    _r13_names_compared_caselessly(repo, rep)
    # an action that takes the wrong p[i] for an alternative (a literal
    # token instead of the list that follows it) fails with AttributeError /
    # TypeError on valid MOF: every value-carrying symbol of every
    # alternative is read by the action
    from .c08 import _r8_symbols_consumed
    namespace_caches_are_set_up_together(repo, rep)
    from .c12 import compiler_names_the_namespace
    compiler_names_the_namespace(repo, rep, 'C09.R15')
    _r8_symbols_consumed(repo, rep, 'C09.R14', exempt={
        ('p_instanceDeclaration', 'qualifierList'):
        'the qualifier list of `instance of` is dropped on purpose '
        '(commented in the action); nothing reads it later, so no '
        'exception can come of it (the loss itself is the C08 finding)'})
    _r9_cache_after_commit(repo, rep)
    _r10_reported_file_is_opened_file(repo, rep)
    _r11_cache_key_is_target_namespace(repo, rep)
    _r12_lexer_terminates(repo, rep)
    mod = repo.module(MOF)
    mc = repo.cls(MOF, 'MOFCompiler')
    actions = [f for n, f in mod.functions.items()
               if n.startswith('p_') or n.startswith('t_')]
    if len(actions) < 80:
        raise AnalysisError('only %d grammar/token actions found' %
                            len(actions))
    base = repo.cls(MOF, 'BaseRepositoryConnection')
    impls = [c for c in repo.subclasses_of('BaseRepositoryConnection')
             if c is not base]
    if len(impls) < 2:
        raise AnalysisError('repository connection implementations not '
                            'found')
    res = Resolver(repo)

    def dyn(call, func):
        d = dotted(call.func)
        if d is None:
            return None
        parts = d.split('.')
        if parts[-1] == 'parse' and len(parts) >= 2 and \
                parts[-2] == 'parser' and func.module is mod:
            return list(actions)
        if len(parts) >= 2 and parts[-2] in ('handle', 'conn') and \
                func.file in (MOF, MOCKMOF) and parts[-1][:1].isupper():
            out = []
            if parts[-2] == 'handle':
                for c in impls:
                    m = c.methods.get(parts[-1])
                    if m is not None:
                        out.append(m)
            return out
        if len(parts) >= 2 and parts[-2] == 'server' and 'parser' in parts:
            return []          # opaque: modelled by call_escapes
        return None
    res.dynamic.append(dyn)

    def call_escapes(call, func):
        d = dotted(call.func)
        if d is None:
            return None
        parts = d.split('.')
        if len(parts) >= 2 and func.file in (MOF, MOCKMOF) and (
                (parts[-2] in ('handle', 'conn') and
                 parts[-1][:1].isupper()) or
                (parts[-2] == 'server' and 'parser' in parts)):
            return [Esc('CIMError', 'repo', func.file, func.qualname,
                        norm(call.func) + '(...)', call.lineno)]
        return None

    log = []
    std_guard = conv_guard_factory(repo, log)
    tok_log = []

    def token_pattern(func):
        doc = ast.get_docstring(func.node, clean=False)
        for dn in func.node.decorator_list:
            if isinstance(dn, ast.Call) and dotted(dn.func) in ('lex.TOKEN',
                                                                'TOKEN'):
                try:
                    return fold_const(dn.args[0], module_env(repo, mod))
                except NotConst:
                    return None
        return doc

    def conv_guard(call, func, facts):
        if func.module is mod and func.name.startswith('t_'):
            pat = token_pattern(func)
            if not pat:
                return False
            fn = dotted(call.func)
            arg = call.args[0]
            base_ = 10
            if fn == 'int' and len(call.args) > 1 and \
                    isinstance(call.args[1], ast.Constant):
                base_ = call.args[1].value
            sl = None
            if isinstance(arg, ast.Subscript) and \
                    norm(arg.value) == 't.value' and \
                    isinstance(arg.slice, ast.Slice):
                def cv(x):
                    if x is None:
                        return None
                    try:
                        return fold_const(x)
                    except NotConst:
                        return 'bad'
                sl = (cv(arg.slice.lower), cv(arg.slice.upper))
                if 'bad' in sl:
                    return False
            elif norm(arg) != 't.value':
                return False
            try:
                cre = re.compile(pat)
                ptree = rx.parse(pat)
            except Exception:
                return False
            filters = []
            for t, pol in facts:
                # re.search(CONST, t.value) is not None
                if isinstance(t, ast.Compare) and len(t.ops) == 1 and \
                        isinstance(t.ops[0], (ast.IsNot, ast.Is)) and \
                        isinstance(t.left, ast.Call) and \
                        dotted(t.left.func) == 're.search' and \
                        len(t.left.args) == 2 and \
                        isinstance(t.left.args[0], ast.Constant) and \
                        norm(t.left.args[1]) == 't.value':
                    found = isinstance(t.ops[0], ast.IsNot)
                    want_found = found if pol else not found
                    filters.append((re.compile(t.left.args[0].value),
                                    want_found))
            n = 0
            bad = None
            for s in rx.samples(ptree, 600):
                if not cre.fullmatch(s):
                    continue
                if any(bool(f.search(s)) != w for f, w in filters):
                    continue
                text = s[sl[0]:sl[1]] if sl else s
                n += 1
                try:
                    int(text, base_) if fn == 'int' else float(text)
                except ValueError:
                    bad = text
                    break
            ok = n > 0 and bad is None
            tok_log.append({'token': func.name, 'pattern': pat,
                            'conversion': norm(call), 'samples': n,
                            'extra_filters': [f.pattern for f, w in filters],
                            'safe': ok, 'counterexample': bad})
            return ok
        return std_guard(call, func, facts)

    def value_arg_is_none(call, target):
        """The constructor call passes no value (absent or literal None)
        for the parameter named `value`."""
        ps = [x for x in target.params if x not in ('self', 'cls')]
        if 'value' not in ps:
            return False
        i = ps.index('value')
        arg = None
        if i < len(call.args):
            arg = call.args[i]
        for k in call.keywords:
            if k.arg == 'value':
                arg = k.value
        return arg is None or (isinstance(arg, ast.Constant) and
                               arg.value is None)

    def esc_filter(call, func, target, e):
        if func.module is mod and func.name.startswith('p_') and \
                target.name in ('__init__', '__new__') and \
                e.func in ('cimvalue', 'CIMInt.__new__',
                           'CIMDateTime.__init__', 'CIMDateTime._to_int',
                           '_infer_type', 'cimtype',
                           '_check_array_parms', '_check_embedded_object',
                           '_infer_embedded_object',
                           'CIMInstanceName.from_wbem_uri',
                           'CIMInstanceName._kbstr_to_cimval') and \
                value_arg_is_none(call, target):
            return False
        return True

    ea = EscapeAnalysis(repo, res, conv_guard=conv_guard,
                        call_escapes=call_escapes, esc_filter=esc_filter)
    entries = []
    for n in ('compile_string', 'compile_file', 'compile_embedded_value'):
        f = mc.methods.get(n)
        if f is None:
            raise AnalysisError('MOFCompiler.%s vanished' % n)
        entries.append(f)
    # compiler methods the grammar actions reach through p.parser.mofcomp
    # (the resolver does not follow that attribute): judged as entry points
    # of their own
    via_mofcomp = []
    for a_ in actions:
        for c_ in walk_no_nested(a_.node):
            if isinstance(c_, ast.Call):
                d_ = dotted(c_.func) or ''
                if '.mofcomp.' in d_:
                    m_ = mc.methods.get(d_.split('.')[-1])
                    if m_ is not None and m_ not in via_mofcomp and \
                            m_ not in entries:
                        via_mofcomp.append(m_)
    if not via_mofcomp:
        raise AnalysisError('no p.parser.mofcomp.<method>() call in the '
                            'grammar actions (find_mof anchor moved)')
    entries = entries + via_mofcomp
    ea.solve(entries + actions)
    # everything escaping an action escapes compile_string (its only
    # handler re-raises MOFCompileError): judge each action's own summary,
    # so that the report names the grammar action where the foreign
    # exception enters compiler code
    for f in entries:
        # sanity: the entry points must not swallow anything
        pass
    impl_names = {c.name for c in impls} | {base.name}

    def allowed(e):
        if ea.h.is_sub(e.exc, 'MOFCompileError'):
            return True
        if e.exc in ('OSError', 'IOError') or ea.h.is_sub(e.exc, 'OSError'):
            return True
        return False

    shape_skipped = {}

    def shape_check(e):
        """The raise is an argument-shape check (None name / wrong item
        type in a container setter) that grammar actions cannot trigger:
        names come from identifier tokens, containers are built by the
        actions themselves."""
        if e.kind != 'raise':
            return False
        key = (e.func, e.line)
        if key in shape_skipped:
            return shape_skipped[key]
        res_ = False
        try:
            of = repo.func(e.file, e.func)
        except AnalysisError:
            of = None
        if of is not None:
            fx = ea.facts(of)
            for st, (fs, _) in fx.items():
                if isinstance(st, ast.Raise) and st.lineno == e.line:
                    for t, pol in fs:
                        tt = norm(t)
                        if pol and tt in ('name is None', 'classname is None',
                                          'type is None'):
                            res_ = True
                        if (not pol) and tt.startswith('isinstance(item, '):
                            res_ = True
        shape_skipped[key] = res_
        return res_

    roots = actions + entries
    groups = {}
    skipped_shape = set()
    for f in roots:
        for e in ea.summ.get(f.fq, {}).values():
            if e.kind == 'assert':
                continue
            origin_cls = e.func.split('.')[0]
            if e.exc == 'CIMError' and e.kind == 'raise' and \
                    origin_cls in impl_names:
                continue        # subsumed by the modelled repository error
            if any(c.split('.')[0].startswith(('p_', 't_')) or
                   c.startswith('MOFCompiler.')
                   for c in e.chain[1:] + (
                       (e.func,) if len(e.chain) >= 1 else ())):
                continue        # reported at the inner action / entry
            rr = r1
            if e.kind == 'repo':
                rr = r2
                if not (e.func.split('.')[0].startswith('p_') or
                        e.func.startswith('MOFCompiler.')):
                    continue    # inside a repository implementation: it
                    #             *is* the repository, judged at the action
            elif e.kind == 'none':
                rr = r3
            elif e.kind == 'conv' and e.func.startswith('t_'):
                rr = r5
            ok = allowed(e)
            if not ok and rr is r1 and e.kind == 'raise' and \
                    e.func not in VALUE_FUNCS and \
                    not e.func.split('.')[0].startswith(('p_', 't_')) and \
                    e.func.split('.')[0] not in ('MOFCompiler',):
                # argument-shape checks of the object model (None name,
                # wrong item type in a container, ...): the grammar actions
                # build these arguments themselves
                skipped_shape.add('%s:%s' % (e.func, e.construct))
                continue
            rr.ob(ok, '%s|%s|%s|%s' % (f.qualname, e.func, e.construct,
                                       e.exc),
                  {'action': f.qualname, 'may_escape': e.exc,
                   'kind': e.kind,
                   'origin': '%s: %s' % (e.func, e.construct),
                   'allowed': ok})
            if ok:
                continue
            hop = e.chain[1] if len(e.chain) > 1 else e.func
            if rr is r1:
                key = (rr.rule, f.qualname, e.exc, '')
            else:
                key = (rr.rule, e.func, e.construct, e.exc)
            groups.setdefault(key, []).append((f, e))
    for (rule, where, via, exc), es in sorted(groups.items()):
        f, e = es[0]
        if rule == 'C09.R1':
            via, exc = 'value/type validation of the object model', via
        rr = {'C09.R1': r1, 'C09.R2': r2, 'C09.R3': r3, 'C09.R5': r5}[rule]
        if rr is r1:
            origins = sorted({'%s (%s)' % (x.func, x.construct)
                              for _, x in es})
            msg = ('%s raised in %s propagates out of %s unconverted: '
                   'compile_string() raises %s instead of MOFCompileError'
                   % (exc, '; '.join(origins[:3]), where, exc))
            line = f.node.lineno
            file_ = f.file
        elif rr is r2:
            msg = ('repository call is not inside a try that converts '
                   'CIMError to MOFRepositoryError/MOFDependencyError on '
                   'this path: CIMError escapes compile_string()')
            line, file_ = e.line, e.file
        elif rr is r3:
            msg = ('match result is dereferenced before it is tested for '
                   'None: %s escapes for input the pattern rejects' % exc)
            line, file_ = e.line, e.file
        else:
            msg = 'token conversion not covered by the token pattern'
            line, file_ = e.line, e.file
        rep.finding(rr, where, via if rr is r1 else e.construct, exc, file_,
                    line, msg, path=list(e.chain) + [e.func])
    r1.notes.append('argument-shape checks not judged (unreachable from '
                    'grammar actions): %s' % sorted(skipped_shape)[:30])
    r1.sites = len(actions) + len(entries)
    r1.functions.update(f.fq for f in actions + entries)
    r1.notes.append('functions analysed: %d; calls %s' % (len(ea.analysed),
                                                          ea.call_stats))
    r2.sites = sum(1 for f in actions for c in walk_no_nested(f.node)
                   if isinstance(c, ast.Call) and call_escapes(c, f))
    r3.sites = sum(len(ea._match_vars(f)) for f in actions)
    # ---- R5 evidence ---------------------------------------------------
    r5.sites = len(tok_log)
    for t in tok_log:
        r5.ob(t['safe'], 'token:%s|%s' % (t['token'], t['conversion']), t)
    if len(tok_log) < 5:
        raise AnalysisError('expected >= 5 token conversions, saw %d'
                            % len(tok_log))
    # ---- R4 ---------------------------------------------------------------
    scope = list(actions)
    for c in impls + [mc]:
        scope += list(c.methods.values())
    for f in scope:
        r4.sites += 1
        r4.functions.add(f.fq)
        hits = possibly_unbound(f)
        r4.ob(not hits, f.qualname)
        seen = set()
        for name, st, nm in hits:
            if name in seen:
                continue
            seen.add(name)
            rep.finding(r4, f.qualname, name, 'unbound', f.file, nm.lineno,
                        'local %r may be unbound here (a path from the '
                        'function entry reaches this use without any '
                        'assignment): UnboundLocalError instead of a '
                        'compile result' % name)
    # ---- R7: error messages can be built ------------------------------
    r7 = rep.rule('C09.R7', 'error-message format strings are well-formed')
    from ..guards import format_problems
    for m2 in (mod, repo.module(MOCKMOF)):
        for f in m2.all_funcs():
            for c in walk_no_nested(f.node):
                if isinstance(c, ast.Call):
                    ps = format_problems(c)
                    fmtcall = dotted(c.func) == '_format' or (
                        isinstance(c.func, ast.Attribute) and
                        c.func.attr == 'format')
                    if not fmtcall:
                        continue
                    r7.sites += 1
                    r7.ob(not ps, '%s|%s' % (f.qualname, norm(c.args[0], 60)
                                             if c.args else ''))
                    for pr in ps:
                        rep.finding(r7, f.qualname,
                                    norm(c.args[0], 80) if c.args
                                    else norm(c, 80), 'format', f.file,
                                    c.lineno, 'building this message raises '
                                    'instead of the intended error: ' + pr)
            r7.functions.add(f.fq)
    _r8_optional_attrs(repo, rep)
    # ---- R6b: saved parser state is restored on every normal return --------
    # (a nested compile - compile_embedded_value inside an instance
    # declaration - runs in the middle of an outer compile that keeps using
    # parser.file / parser.mof for its own error context)
    from ..cfg import CFG
    for f in mc.methods.values():
        saved = {}
        for n in walk_no_nested(f.node):
            if isinstance(n, ast.Assign) and len(n.targets) == 1 and \
                    isinstance(n.targets[0], ast.Name) and \
                    norm(n.value).startswith('self.parser.') and \
                    isinstance(n.value, ast.Attribute):
                saved[n.targets[0].id] = norm(n.value)
        if not saved:
            continue
        cfg = None
        for var, attr in sorted(saved.items()):
            mods = [n for n in walk_no_nested(f.node)
                    if isinstance(n, ast.Assign) and
                    norm(n.targets[0]) == attr and norm(n.value) != var]
            restores = [n for n in walk_no_nested(f.node)
                        if isinstance(n, ast.Assign) and
                        norm(n.targets[0]) == attr and norm(n.value) == var]
            if not mods or not restores:
                continue
            if cfg is None:
                cfg = CFG(f.node)
            r6.sites += 1
            rets = [n for n in cfg.stmts() if isinstance(n, ast.Return)]
            for ret in rets:
                wit = None
                for m_ in mods:
                    if m_ not in cfg.succ:
                        continue
                    wit = cfg.path_avoiding(m_, ret,
                                            lambda n: n in restores)
                    if wit is not None:
                        break
                ok = wit is None
                r6.ob(ok, '%s:%s:restore' % (f.name, attr),
                      {'function': f.qualname, 'saved': '%s = %s' % (var,
                                                                     attr),
                       'restored_before_return': ok})
                if not ok:
                    conds = [norm(n.test, 40) for n in wit
                             if isinstance(n, (ast.If, ast.For))
                             and hasattr(n, 'test')]
                    rep.finding(
                        r6, f.qualname, '%s = %s' % (attr, var),
                        'not-restored', MOF, ret.lineno,
                        '%s is saved in %s and switched for the nested '
                        'compile, but there is a path to the return on which '
                        'it is not restored (through: %s): the enclosing '
                        'compile then computes error positions against the '
                        'wrong text (IndexError instead of MOFCompileError, '
                        'or a wrong context)'
                        % (attr, var, ' / '.join(conds[-3:]) or '-'))
    per_compile_state_rule(repo, rep, r6)


def per_compile_state_rule(repo, rep, r6):
    """C09.R6 (also used as C08.R12): a parser attribute that a compile
    entry point switches away from its __init__ default is re-assigned by
    every entry point before parsing, or reset in a finally that covers the
    parse calls - otherwise a failed compile leaves the same MOFCompiler in
    that mode (e.g. the embedded-object mode, in which classes and
    qualifier declarations are rejected and instances are collected in a
    list instead of reaching the repository)."""
    mc = repo.cls(MOF, 'MOFCompiler')
    # A parser attribute that a compile entry point switches away from its
    # __init__ default is either re-assigned by *every* entry point before
    # it starts parsing (so a stale value cannot survive a failed compile),
    # or put back to the default in a `finally` that covers the parse calls.
    init = mc.methods['__init__']
    defaults = {}
    for n in walk_no_nested(init.node):
        if isinstance(n, ast.Assign) and len(n.targets) == 1 and \
                norm(n.targets[0]).startswith('self.parser.'):
            defaults[norm(n.targets[0])[12:]] = norm(n.value)

    def parse_calls(stmts):
        return [c for st in stmts for c in ast.walk(st)
                if isinstance(c, ast.Call) and
                dotted(c.func) == 'self.parser.parse']
    entries = [f for f in mc.methods.values()
               if f is not init and parse_calls(f.body)]
    if len(entries) < 2:
        raise AnalysisError('MOFCompiler: compile entry points calling '
                            'self.parser.parse not found')
    r6.functions.update(f.fq for f in entries)

    def assigns(f):
        out = {}
        for n in walk_no_nested(f.node):
            if isinstance(n, ast.Assign) and len(n.targets) == 1 and \
                    norm(n.targets[0]).startswith('self.parser.'):
                out.setdefault(norm(n.targets[0])[12:], []).append(n)
        return out
    per_entry = {f.name: assigns(f) for f in entries}
    attrs = sorted({a for d in per_entry.values() for a in d})
    for a in attrs:
        r6.sites += 1
        first_parse = {f.name: min(c.lineno for c in parse_calls(f.body))
                       for f in entries}
        reinit = all(any(n.lineno < first_parse[f.name]
                         for n in per_entry[f.name].get(a, []))
                     for f in entries)
        if reinit:
            r6.ob(True, 'parser.%s:re-initialised' % a,
                  {'attr': a, 'how': 're-assigned by every entry point '
                   'before parsing', 'entries': sorted(per_entry)})
            continue
        for f in entries:
            for n in per_entry[f.name].get(a, []):
                if a in defaults and norm(n.value) == defaults[a]:
                    continue
                # a non-default value: needs a covering finally
                covered = False
                for t in walk_no_nested(f.node):
                    if not isinstance(t, ast.Try) or not t.finalbody:
                        continue
                    resets = [x for fb in t.finalbody for x in ast.walk(fb)
                              if isinstance(x, ast.Assign) and
                              norm(x.targets[0]) == 'self.parser.' + a and
                              norm(x.value) == defaults.get(a)]
                    body_calls = parse_calls(t.body)
                    all_calls = parse_calls(f.body)
                    inside = any(x is n for st in t.body
                                 for x in ast.walk(st))
                    if resets and len(body_calls) == len(all_calls) and \
                            (inside or n.lineno < t.lineno):
                        covered = True
                r6.ob(covered, '%s:parser.%s' % (f.name, a),
                      {'attr': a, 'entry': f.qualname, 'assign': norm(n),
                       'default': defaults.get(a),
                       'reset_in_finally': covered})
                if not covered:
                    rep.finding(
                        r6, f.qualname, norm(n), 'stale-state', MOF,
                        n.lineno,
                        'parser.%s is switched to %s for this compile, is '
                        'not re-assigned by every compile entry point, and '
                        'is not reset to %s in a finally covering the parse: '
                        'after a failed compile the same MOFCompiler keeps '
                        'the stale value' % (a, norm(n.value),
                                             defaults.get(a)))


def _r8_optional_attrs(repo, rep):
    """C09.R8: attributes of the MOF error classes that come from an optional
    constructor parameter (default None) are not dereferenced without a None
    test while some raise site omits the parameter: building the error
    message would raise AttributeError instead of the MOFCompileError."""
    from ..cfg import stmt_facts
    r8 = rep.rule('C09.R8', 'optional attributes of the MOF error classes are '
                  'tested before they are dereferenced')
    mod = repo.module(MOF)
    for cls in mod.classes.values():
        if not (cls.name.startswith('MOF') and cls.name.endswith('Error')):
            continue
        init = cls.methods.get('__init__')
        if init is None:
            continue
        dfl = init.param_defaults()
        opt = {}          # attribute (private and public name) -> param
        for n in walk_no_nested(init.node):
            if isinstance(n, ast.Assign) and len(n.targets) == 1 and \
                    isinstance(n.targets[0], ast.Attribute) and \
                    norm(n.targets[0].value) == 'self' and \
                    isinstance(n.value, ast.Name) and \
                    isinstance(dfl.get(n.value.id), ast.Constant) and \
                    dfl[n.value.id].value is None:
                a = n.targets[0].attr
                opt[a] = n.value.id
                opt[a.lstrip('_')] = n.value.id
        if not opt:
            continue
        # does some construction site leave the parameter out?
        params = [p_ for p_ in init.params if p_ != 'self']
        omitted = {}
        for f in mod.all_funcs():
            for c in walk_no_nested(f.node):
                if isinstance(c, ast.Call) and dotted(c.func) == cls.name:
                    given = set(params[:len(c.args)]) | {
                        k.arg for k in c.keywords
                        if not (isinstance(k.value, ast.Constant) and
                                k.value.value is None)}
                    for prm in set(opt.values()):
                        if prm not in given:
                            omitted.setdefault(prm, []).append(
                                '%s:%d' % (f.qualname, c.lineno))
        for m in list(cls.methods.values()) + list(cls.getters.values()):
            facts = stmt_facts(m.node)
            for st, (fs, _) in facts.items():
                if isinstance(st, (ast.If, ast.For, ast.While, ast.Try,
                                   ast.With)):
                    exprs = [st.test] if hasattr(st, 'test') else []
                else:
                    exprs = [st]
                for e in exprs:
                    for x in ast.walk(e):
                        if not (isinstance(x, (ast.Attribute, ast.Subscript))
                                and isinstance(x.value, ast.Attribute) and
                                norm(x.value.value) == 'self' and
                                x.value.attr in opt):
                            continue
                        attr = x.value.attr
                        prm = opt[attr]
                        r8.sites += 1
                        r8.functions.add(m.fq)
                        base = norm(x.value)
                        guarded = any(
                            (pol and norm(t) in (base, base +
                                                 ' is not None')) or
                            ((not pol) and norm(t) in (base + ' is None',
                                                       'not ' + base))
                            for t, pol in fs)
                        ok = guarded or prm not in omitted
                        r8.ob(ok, '%s|%s' % (m.qualname, norm(x, 50)),
                              {'use': norm(x, 60), 'parameter': prm,
                               'omitted_at': omitted.get(prm, [])[:2],
                               'guarded': guarded})
                        if not ok:
                            rep.finding(
                                r8, m.qualname, norm(x, 60), 'none-deref',
                                MOF, x.lineno,
                                '%s is None when the error is raised without '
                                '%s= (e.g. at %s); %s then raises '
                                'AttributeError/TypeError while the message '
                                'of the MOFCompileError is built - '
                                'compile_string() calls get_err_msg() in its '
                                'handler, so that exception escapes instead'
                                % (base, prm, omitted[prm][0], norm(x, 40)))


# containers of the parser object that mirror what the repository holds (the
# grammar actions consult them instead of asking the repository)
REPO_MIRRORS = {
    'qualcache': 'qualifier declarations the repository accepted',
    'classnames': 'names of classes known to exist in the repository',
    'aliases': 'instance paths of instances created in the repository',
}
# written by mp_* actions but not a mirror of repository state
NOT_MIRRORS = {
    'embedded_objects': 'collects the instances INSTEAD of sending them to '
                        'the repository (embedded instance mode)',
}
WRITE_OPS = ('CreateClass', 'ModifyClass', 'CreateInstance', 'ModifyInstance',
             'SetQualifier')


def _r9_cache_after_commit(repo, rep):
    """C09.R9: an mp_* action records an object in one of the parser's
    repository mirrors only on paths where the repository operation storing
    that object has returned normally.  A mirror entry for a rejected
    object survives the failed compile and later valid MOF compiled with the
    same MOFCompiler is typed against it (wrong values, ValueError instead
    of MOFCompileError, missing MOFDependencyError)."""
    from ..cfg import CFG
    r9 = rep.rule('C09.R9', 'repository mirrors of the parser are updated '
                  'only after the repository operation succeeded')
    mod = repo.module(MOF)
    acts = [f for n, f in mod.functions.items() if n.startswith('p_mp_')]
    if len(acts) < 3:
        raise AnalysisError('mp_* grammar actions not found')

    def mirror_of(st):
        """(attr, value expr) when st stores into / appends to
        p.parser.<attr>"""
        tgt = val = None
        if isinstance(st, ast.Assign) and len(st.targets) == 1 and \
                isinstance(st.targets[0], ast.Subscript):
            tgt, val = st.targets[0], st.value
        elif isinstance(st, ast.Expr) and isinstance(st.value, ast.Call) and \
                isinstance(st.value.func, ast.Attribute) and \
                st.value.func.attr in ('append', 'add', 'update',
                                       'setdefault', 'extend') and \
                st.value.args:
            tgt, val = st.value.func.value, st.value.args[-1]
        if tgt is None:
            return None
        t = tgt
        while isinstance(t, ast.Subscript):
            t = t.value
        d = dotted(t) or ''
        if d.startswith('p.parser.') and d.count('.') == 2:
            return d.split('.')[2], val
        return None

    def names(e):
        return {x.id for x in ast.walk(e) if isinstance(x, ast.Name)} - {'p'}
    from ..inline import Flat
    for f in acts:
        cfg = CFG(Flat(f).node)
        writes = []        # (stmt, call, names)
        for st in cfg.nodes:
            if not isinstance(st, ast.stmt) or isinstance(
                    st, (ast.If, ast.For, ast.While, ast.Try, ast.With)):
                continue
            for c in ast.walk(st):
                if isinstance(c, ast.Call) and \
                        (dotted(c.func) or '').startswith(
                            'p.parser.handle.') and \
                        c.func.attr in WRITE_OPS and c.args:
                    ns_ = names(c.args[0])
                    if isinstance(st, ast.Assign):
                        for t in st.targets:
                            ns_ |= names(t)
                    writes.append((st, c, ns_))
        for st in cfg.nodes:
            if not isinstance(st, ast.stmt):
                continue
            m = mirror_of(st)
            if m is None:
                continue
            attr, val = m
            if attr in NOT_MIRRORS:
                continue
            if attr not in REPO_MIRRORS:
                r9.undecided.append('%s: p.parser.%s is written but is not '
                                    'classified' % (f.qualname, attr))
                continue
            # repository writes about the same object
            N = names(val)
            S = set()
            changed = True
            while changed:
                changed = False
                for wst, c, ns_ in writes:
                    if wst not in S and ns_ & N:
                        S.add(wst)
                        N |= ns_ - {'ns', 'namespace'}
                        changed = True
            if not S:
                continue          # records something else (e.g. a dependency)
            r9.sites += 1
            r9.functions.add(f.fq)
            # is the store reachable without a write of S having returned?
            seen = {cfg.ENTRY}
            work = [cfg.ENTRY]
            while work:
                a = work.pop()
                for b in cfg.succ[a]:
                    if a in S and cfg.label.get((a, b)) == {'exc'}:
                        pass            # the call raised: follow
                    elif a in S:
                        continue        # normal return of the write
                    if b not in seen:
                        seen.add(b)
                        work.append(b)
            ok = st not in seen
            r9.ob(ok, '%s|%s' % (f.qualname, norm(st, 60)),
                  {'mirror': attr, 'object': sorted(names(val)),
                   'repository_writes': sorted(norm(w, 50) for w in S)})
            if not ok:
                rep.finding(r9, f.qualname, norm(st, 80), 'before-commit',
                            MOF, st.lineno,
                            'p.parser.%s (%s) is updated on a path on which '
                            'none of %s has returned: if the repository '
                            'rejects the object, the entry stays behind and '
                            'later MOF compiled with the same MOFCompiler is '
                            'checked against an object the repository never '
                            'accepted' % (attr, REPO_MIRRORS[attr],
                                          sorted(norm(w, 50) for w in S)))
    if r9.sites < 3:
        raise AnalysisError('C09.R9: only %d mirror updates found'
                            % r9.sites)


def _r10_reported_file_is_opened_file(repo, rep):
    """C09.R10: compile_file() compiles the text of the file it opened under
    that file's name.  The name is what MOFCompileError.file reports and
    what relative `#pragma include` paths are resolved against; when the
    file was located through the search path, handing on the requested
    (non-existing) name makes error positions point into a file that does
    not exist and valid nested includes fail with OSError."""
    r10 = rep.rule('C09.R10', 'compile_file() reports the name of the file it '
                   'opened')
    mc = repo.cls(MOF, 'MOFCompiler')
    f = mc.methods.get('compile_file')
    if f is None:
        raise AnalysisError('MOFCompiler.compile_file vanished')
    r10.functions.add(f.fq)
    opens = [c for c in walk_no_nested(f.node) if isinstance(c, ast.Call) and
             dotted(c.func) in ('open', 'io.open', 'codecs.open') and c.args]
    comp = [c for c in walk_no_nested(f.node) if isinstance(c, ast.Call) and
            dotted(c.func) == 'self.compile_string']
    if len(opens) != 1 or len(comp) != 1:
        raise AnalysisError('compile_file: open()/compile_string() calls not '
                            'found (%d/%d)' % (len(opens), len(comp)))
    cs = mc.methods.get('compile_string')
    ps = [p for p in cs.params if p != 'self']
    given = None
    for k in comp[0].keywords:
        if k.arg == 'filename':
            given = k.value
    if given is None and 'filename' in ps and \
            ps.index('filename') < len(comp[0].args):
        given = comp[0].args[ps.index('filename')]
    r10.sites += 1
    ok = given is not None and norm(given) == norm(opens[0].args[0])
    r10.ob(ok, 'compile_file', {'opened': norm(opens[0].args[0]),
                                'reported': norm(given) if given is not None
                                else None})
    if not ok:
        rep.finding(r10, f.qualname, norm(comp[0], 80), 'other-file-name',
                    MOF, comp[0].lineno,
                    'the text read from %s is compiled under the name %s: '
                    'when the file was found through the search path, '
                    'MOFCompileError.file / lineno / column no longer point '
                    'into the offending input and relative includes of the '
                    'located file are resolved against the wrong directory '
                    '(OSError although no file is missing)'
                    % (norm(opens[0].args[0]),
                       norm(given) if given is not None else '(none)'))


def _cache_inits(f):
    """(cache name, key expression, node) for every place in f that makes
    sure an entry of a per-namespace parser table exists: `X.qualcache[K] =
    <new container>` or `X.classnames.setdefault(K, <new container>)`"""
    out = []
    for n in walk_no_nested(f.node):
        if isinstance(n, ast.Assign) and len(n.targets) == 1 and \
                isinstance(n.targets[0], ast.Subscript) and \
                isinstance(n.targets[0].value, ast.Attribute) and \
                n.targets[0].value.attr in ('qualcache', 'classnames') and \
                'parser' in (dotted(n.targets[0].value) or ''):
            out.append((n.targets[0].value.attr, n.targets[0].slice, n))
        elif isinstance(n, ast.Call) and \
                isinstance(n.func, ast.Attribute) and \
                n.func.attr == 'setdefault' and len(n.args) == 2 and \
                isinstance(n.func.value, ast.Attribute) and \
                n.func.value.attr in ('qualcache', 'classnames') and \
                'parser' in (dotted(n.func.value) or ''):
            out.append((n.func.value.attr, n.args[0], n))
    return out


def _r11_cache_key_is_target_namespace(repo, rep):
    """C09.R11: where a function selects the target namespace of the parser
    (`parser.target_namespace = X`) and makes sure the per-namespace tables
    exist (`parser.qualcache[K] = NocaseDict()`, `parser.classnames[K] =
    []`), K is X.  The grammar actions index the tables with
    `target_namespace or default_namespace`; a table created under another
    key (e.g. the un-defaulted None) makes a valid compile fail with a bare
    KeyError."""
    r11 = rep.rule('C09.R11', 'per-namespace parser tables are created for '
                   'the namespace that is made the target')
    mod = repo.module(MOF)
    for f in mod.all_funcs():
        tgt = [n for n in walk_no_nested(f.node) if isinstance(n, ast.Assign)
               and (dotted(n.targets[0]) or '').endswith(
                   'parser.target_namespace') and
               not (isinstance(n.value, ast.Constant) and
                    n.value.value is None)]
        inits = _cache_inits(f)
        if not tgt or not inits:
            continue
        r11.sites += 1
        r11.functions.add(f.fq)
        x = norm(tgt[-1].value)
        keys = {norm(k) for _c, k, _n in inits}
        ok = keys == {x}
        r11.ob(ok, f.qualname, {'target_namespace': x, 'keys': sorted(keys)})
        if not ok:
            rep.finding(r11, f.qualname, 'target_namespace = %s' % x,
                        'other-key', MOF, tgt[-1].lineno,
                        'the target namespace is set to %s but the '
                        'per-namespace tables are created under %s: the '
                        'grammar actions look them up under the effective '
                        'target namespace and raise KeyError for valid MOF '
                        '(e.g. ns=None after the default namespace of the '
                        'connection was changed)' % (x, sorted(keys)))
    if r11.sites < 3:
        raise AnalysisError('C09.R11: only %d sites' % r11.sites)


def _r12_lexer_terminates(repo, rep):
    """C09.R12: the lexer returns for every input.  PLY joins the token
    patterns (docstrings of the t_* functions, @lex.TOKEN(...) arguments,
    t_* string constants) into one backtracking regular expression; a token
    pattern of the shape `(x+|y)*` lets `re` try every way of splitting a
    long run of x when the rest of the token does not match (a string
    literal with a missing end quote), so compiling such MOF does not
    return - instead of raising MOFParseError with line and column."""
    from ..model import fold_const, NotConst, module_env
    from .. import rx
    r12 = rep.rule('C09.R12', 'no lexer token pattern has an unbounded repeat '
                   'of an unbounded repeat (exponential backtracking)')
    m = repo.module(MOF)
    env = module_env(repo, m)
    pats = []
    for name, f in sorted(m.functions.items()):
        if not name.startswith('t_') or name == 't_error':
            continue
        node = None
        for d in f.node.decorator_list:
            if isinstance(d, ast.Call) and \
                    (dotted(d.func) or '').endswith('TOKEN') and d.args:
                node = d.args[0]
        if node is None:
            b = f.node.body
            if b and isinstance(b[0], ast.Expr) and \
                    isinstance(b[0].value, ast.Constant) and \
                    isinstance(b[0].value.value, str):
                node = b[0].value
        if node is None:
            raise AnalysisError('lexer rule %s has no pattern' % name)
        pats.append((name, node, f.node.lineno))
    for name, node in sorted(m.consts.items()):
        if name.startswith('t_') and name != 't_ignore' and \
                not name.startswith('t_ignore_'):
            pats.append((name, node, getattr(node, 'lineno', 0)))
    for name, node, line in pats:
        try:
            pat = fold_const(node, env)
        except (NotConst, TypeError, KeyError, ValueError):
            pat = None
        if not isinstance(pat, str):
            r12.undecided.append('%s: pattern not constant' % name)
            continue
        r12.sites += 1
        try:
            tree = rx.parse(pat)
        except Exception:                   # pylint: disable=broad-except
            r12.undecided.append('%s: pattern not parsable' % name)
            continue
        amb = rx.ambiguous_repeats(tree)
        r12.ob(not amb, name, {'pattern': pat[:80]})
        if amb:
            rep.finding(r12, name, pat[:80], 'exponential-regex', MOF, line,
                        'the token pattern repeats %s without bound, and '
                        'that body is itself an unbounded repeat: on text '
                        'that almost matches (a long string literal whose '
                        'closing quote is missing) the lexer tries every '
                        'way of splitting it and compile_string() does not '
                        'return' % str(amb[0])[:70])
    if r12.sites < 9:
        raise AnalysisError('C09.R12: only %d constant lexer patterns'
                            % r12.sites)


def namespace_caches_are_set_up_together(repo, rep):
    """C09.R16: the compiler keeps two caches per target namespace,
    parser.qualcache[ns] and parser.classnames[ns]; the grammar actions
    read both with a plain subscript (`cln in p.parser.classnames[ns]`).
    Every place that makes a namespace the target sets up the entry of
    both: where one is initialised and the other is not (the `#pragma
    namespace` action), the first class compiled into that namespace whose
    creation needs the dependency recovery raises KeyError - not a
    MOFCompileError.  Deviant-sibling rule over the initialisation sites."""
    r = rep.rule('C09.R16', 'the per-namespace caches of the compiler are '
                 'initialised together')
    MOF = 'pywbem/_mof_compiler.py'
    CACHES = ('qualcache', 'classnames')
    n = 0
    for f in repo.module(MOF).all_funcs():
        inits = {}
        for cname, key, node in _cache_inits(f):
            # (a list that is created with its first element, in the
            # `except KeyError` of a lazy append, is not a set-up site)
            if isinstance(node, ast.Assign) and \
                    isinstance(node.value, ast.List) and node.value.elts:
                continue
            inits.setdefault(norm(key), {})[cname] = node
        for key, got in sorted(inits.items()):
            n += 1
            r.sites += 1
            r.functions.add(f.fq)
            missing = [c for c in CACHES if c not in got]
            r.ob(not missing, '%s|[%s]' % (f.qualname, key))
            for c in missing:
                a = list(got.values())[0]
                rep.finding(r, f.qualname, norm(a, 60), 'cache-not-set-up',
                            MOF, a.lineno,
                            'parser.%s[%s] is initialised here but parser.%s'
                            '[%s] is not: the actions subscript both, so the '
                            'first use for this namespace raises KeyError '
                            'out of compile_string()'
                            % (list(got)[0], key, c, key))
    if n < 3:
        raise AnalysisError('C09.R16: only %d cache initialisation sites'
                            % n)
