"""C17 - the listener answers any HTTP request with one well-formed
response."""
import ast

from ..model import AnalysisError, walk_no_nested, dotted, norm, const_str
from ..cfg import CFG
from ..escape import EscapeAnalysis
from ..guards import conv_guard_factory
from ..resolve import Resolver, add_pywbem_dynamic, check_dynamic_idioms
from .c02 import required_attrs_table

EXPLANATION = (
    "Static check of ListenerRequestHandler: (R1) on the CFG of do_POST "
    "every path from entry to normal exit passes exactly one of "
    "send_http_error / send_error_response / send_success_response (path "
    "counting, min = max = 1), and each of those emits exactly one status "
    "line first, headers, then end_headers() once; (R2) exception-escape "
    "analysis of do_POST: nothing in the catalogue (conversions of header "
    "text such as int(Content-Length), uncaught parser errors, attribute "
    "lookups not covered by check_node, queue.Full) may propagate, because "
    "an escaping exception means no response; the except chain after "
    "parse_export_request must cover that function's whole escape set; "
    "(R3) request-derived text (header values, str() of parse errors, "
    "method and parameter names) must not reach the value argument of "
    "send_header() without a sanitiser that removes CR/LF; (R4) do_<VERB> "
    "exists for OPTIONS, HEAD, GET, PUT, PATCH, DELETE, TRACE, CONNECT, "
    "M-POST and each answers 405 with an Allow header through "
    "invalid_method(). Does not decide byte-level validity of the response "
    "or survival over request histories; a negative Content-Length (blocking "
    "read) is outside the catalogue.")
ASSUMPTIONS = [
    "BaseHTTPRequestHandler.send_response/send_header/end_headers write the "
    "status line/header lines as given (they do not sanitise values)",
    "logger calls do not raise",
    "email header parsing keeps the CR LF of folded request header values",
]

LS = 'pywbem/_listener.py'
RESP = ('send_http_error', 'send_error_response', 'send_success_response')
VERBS = ('OPTIONS', 'HEAD', 'GET', 'PUT', 'PATCH', 'DELETE', 'TRACE',
         'CONNECT', 'M_POST')


def _const_chars(expr, mod, depth=0):
    """the string a constant expression denotes: a literal, a module-level
    name bound once to such an expression, a concatenation, or
    ''.join(chr(c) for c in range(A, B)); None if not evident"""
    if depth > 3:
        return None
    s = const_str(expr)
    if s is not None:
        return s
    if isinstance(expr, ast.Name):
        defs = [st for st in mod.tree.body if isinstance(st, ast.Assign) and
                any(isinstance(t, ast.Name) and t.id == expr.id
                    for t in st.targets)]
        if len(defs) == 1:
            return _const_chars(defs[0].value, mod, depth + 1)
        return None
    if isinstance(expr, ast.BinOp) and isinstance(expr.op, ast.Add):
        a = _const_chars(expr.left, mod, depth + 1)
        b = _const_chars(expr.right, mod, depth + 1)
        return a + b if a is not None and b is not None else None
    if isinstance(expr, ast.Call) and isinstance(expr.func, ast.Attribute) \
            and expr.func.attr == 'join' and \
            const_str(expr.func.value) == '' and len(expr.args) == 1 and \
            isinstance(expr.args[0], (ast.GeneratorExp, ast.ListComp)):
        g = expr.args[0]
        if len(g.generators) == 1 and not g.generators[0].ifs and \
                isinstance(g.generators[0].target, ast.Name) and \
                isinstance(g.elt, ast.Call) and dotted(g.elt.func) == 'chr' \
                and len(g.elt.args) == 1 and \
                isinstance(g.elt.args[0], ast.Name) and \
                g.elt.args[0].id == g.generators[0].target.id:
            it = g.generators[0].iter
            if isinstance(it, ast.Call) and dotted(it.func) == 'range' and \
                    1 <= len(it.args) <= 2 and all(
                        isinstance(a, ast.Constant) and
                        isinstance(a.value, int) for a in it.args):
                vals = [a.value for a in it.args]
                lo, hi = (0, vals[0]) if len(vals) == 1 else vals
                if 0 <= lo <= hi <= 0x110000:
                    return ''.join(chr(c) for c in range(lo, hi))
    return None


def quote_safe_chars(call, mod):
    """the characters urllib.parse.quote() leaves alone in this call, as far
    as its `safe` argument goes (None: cannot be evaluated)"""
    safe = ast.Constant(value='/')
    if len(call.args) > 1:
        safe = call.args[1]
    for k in call.keywords:
        if k.arg == 'safe':
            safe = k.value
        elif k.arg is None:
            return None
    return _const_chars(safe, mod)


def content_length_rule(rep, h, rid):
    """Content-Length is the length of the very bytes object written as the
    body (shared by C17.R6 and C03.R7)"""
    # ---- R6: Content-Length counts the bytes that are written ---------------
    r6 = rep.rule(rid, 'Content-Length is the length of the very bytes '
                  'object written as the body')
    for f in h.methods.values():
        writes_ = [c for c in walk_no_nested(f.node)
                   if isinstance(c, ast.Call) and
                   dotted(c.func) == 'self.wfile.write' and c.args]
        if not writes_:
            continue
        r6.functions.add(f.fq)
        lens = []
        for c in walk_no_nested(f.node):
            if isinstance(c, ast.Call) and \
                    dotted(c.func) == 'self.send_header' and \
                    len(c.args) == 2 and \
                    (const_str(c.args[0]) or '').lower() == 'content-length':
                lens.append(c)
        for w in writes_:
            r6.sites += 1
            body = w.args[0]
            ok = isinstance(body, ast.Name) and len(lens) == 1
            why = 'the body written is not a plain variable, or there is ' \
                  'not exactly one Content-Length header'
            len_line = lens[0].lineno if lens else 0
            if ok:
                le = lens[0].args[1]
                # str(len(<same variable>)); the length may have been put
                # into a local first
                inner = le.args[0] if isinstance(le, ast.Call) and \
                    dotted(le.func) == 'str' and len(le.args) == 1 else None
                if isinstance(inner, ast.Name):
                    ds = [n for n in walk_no_nested(f.node)
                          if isinstance(n, (ast.Assign, ast.AugAssign)) and
                          any(norm(t) == inner.id for t in (
                              n.targets if isinstance(n, ast.Assign)
                              else [n.target]))]
                    if len(ds) == 1 and isinstance(ds[0], ast.Assign) and \
                            inner.id not in f.params:
                        inner, len_line = ds[0].value, ds[0].lineno
                ok = isinstance(inner, ast.Call) and \
                    dotted(inner.func) == 'len' and len(inner.args) == 1 \
                    and norm(inner.args[0]) == body.id
                why = 'Content-Length is %s but the body written is %s' % (
                    norm(le), norm(body))
            if ok:
                # the variable holds encoded bytes when its length is taken:
                # an .encode() assignment precedes the header, and nothing is
                # assigned to it afterwards
                enc = [n for n in walk_no_nested(f.node)
                       if isinstance(n, ast.Assign) and
                       norm(n.targets[0]) == body.id and
                       isinstance(n.value, ast.Call) and
                       isinstance(n.value.func, ast.Attribute) and
                       n.value.func.attr == 'encode' and
                       n.lineno < len_line]
                later = [n for n in walk_no_nested(f.node)
                         if isinstance(n, (ast.Assign, ast.AugAssign)) and
                         any(norm(t) == body.id for t in (
                             n.targets if isinstance(n, ast.Assign)
                             else [n.target])) and
                         n.lineno > len_line]
                ok = bool(enc) and not later
                why = 'the body variable is not encoded to bytes before ' \
                      'its length is taken (or is changed afterwards)'
            r6.ob(ok, f.qualname, {'function': f.qualname,
                                   'body': norm(body), 'holds': ok})
            if not ok:
                rep.finding(r6, f.qualname, norm(w), 'length-of-other-object',
                            LS, w.lineno, why + ': for non-ASCII text the '
                            'character count differs from the byte count, so '
                            'the client reads a truncated (ill-formed) body')
    if r6.sites < 1:
        raise AnalysisError('listener: body writes not found')


def is_resp_stmt(st):
    if isinstance(st, (ast.If, ast.For, ast.While, ast.Try, ast.With)):
        return 0
    n = 0
    for c in ast.walk(st):
        if isinstance(c, ast.Call) and dotted(c.func) in (
                'self.' + r for r in RESP):
            n += 1
    return n


def path_counts(cfg):
    """(min, max) number of response statements on paths ENTRY->EXIT,
    ignoring back edges; None if a response statement lies in a loop."""
    # detect loops containing response statements
    order = []
    seen = set()
    onstack = set()
    back = set()

    def dfs(n):
        seen.add(n)
        onstack.add(n)
        for s in cfg.succ[n]:
            if s in onstack:
                back.add((n, s))
            elif s not in seen:
                dfs(s)
        onstack.discard(n)
        order.append(n)
    import sys
    sys.setrecursionlimit(10000)
    dfs(cfg.ENTRY)
    topo = list(reversed(order))
    best = {cfg.ENTRY: (0, 0)}
    for n in topo:
        if n not in best:
            continue
        lo, hi = best[n]
        w = is_resp_stmt(n) if isinstance(n, ast.stmt) else 0
        for s in cfg.succ[n]:
            if (n, s) in back:
                continue
            if 'exc' in cfg.label.get((n, s), set()) and \
                    cfg.label.get((n, s)) == {'exc'} and s is cfg.RAISE:
                continue
            cur = best.get(s)
            new = (lo + w, hi + w)
            if cur is None:
                best[s] = new
            else:
                best[s] = (min(cur[0], new[0]), max(cur[1], new[1]))
    return best.get(cfg.EXIT)


def run(repo, rep, tier):
    r1 = rep.rule('C17.R1', 'exactly one response per path')
    r2 = rep.rule('C17.R2', 'no escaping exception before the response')
    property_call_rule(repo, rep)
    early_hooks_rule(repo, rep)
    # what one request (indication) leaves behind: the callback thread that
    # delivers all later indications must survive any callback outcome
    from .c02 import object_model_handlers_catch_both
    object_model_handlers_catch_both(repo, rep, 'C17.R12')
    from .c02 import object_model_rejects_only_none
    object_model_rejects_only_none(repo, rep, 'C17.R13')
    from .c02 import recursion_depth_is_converted
    recursion_depth_is_converted(repo, rep, 'C17.R14',
                                 ('pywbem/_listener.py',))
    from .c16 import delivery_thread_survives
    delivery_thread_survives(repo, rep, rep.rule(
        'C17.R11', 'the delivery thread survives every indication (nothing '
        'escapes from the delivery to the callbacks)'))
    # messages built on the request path (parser errors end up in the 400
    # response): a format template that interpolates request text raises
    # KeyError / IndexError inside the handler
    r9 = rep.rule('C17.R9', 'error messages on the request path can be built '
                  '(constant, well-formed format templates)')
    from ..guards import run_format_rule
    run_format_rule(repo, rep, r9, lambda f: f.file in (
        LS, 'pywbem/_tupletree.py', 'pywbem/_tupleparse.py',
        'pywbem/_exceptions.py', 'pywbem/_utils.py'))
    r3 = rep.rule('C17.R3', 'header values are single-line')
    r3b = rep.rule('C17.R3b', 'body-derived header values are escaped to '
                   'latin-1 encodable text')
    r4 = rep.rule('C17.R4', 'all verbs answered')
    h = repo.cls(LS, 'ListenerRequestHandler')
    post = h.methods.get('do_POST')
    if post is None:
        raise AnalysisError('do_POST vanished')
    # ---- R1 ---------------------------------------------------------------
    cfg = CFG(post.node)
    r1.functions.add(post.fq)
    nresp = sum(is_resp_stmt(s) for s in cfg.stmts())
    r1.sites = nresp
    pc = path_counts(cfg)
    in_loop = any(is_resp_stmt(x) for s in cfg.stmts()
                  if isinstance(s, (ast.For, ast.While))
                  for b in s.body for x in ast.walk(b)
                  if isinstance(x, ast.stmt))
    ok = pc == (1, 1) and not in_loop
    r1.ob(ok, 'do_POST:paths', {'response_statements': nresp,
                                'min_max_on_paths': pc})
    if not ok:
        rep.finding(r1, post.qualname, 'responses per path = %s' % (pc,),
                    'path-count', LS, post.node.lineno,
                    'some path through do_POST sends %s responses (min, max)'
                    ' instead of exactly one' % (pc,))
    for rn in RESP:
        f = h.methods.get(rn)
        if f is None:
            raise AnalysisError(rn + ' vanished')
        r1.functions.add(f.fq)
        seq = []

        def collect(fn, cond, depth=0):
            # the wire events of fn in statement order; calls to other
            # methods of the handler are followed (a response tail factored
            # out into a helper is the same sequence)
            for s in fn.body:
                calls = [c for c in ast.walk(s) if isinstance(c, ast.Call)]
                calls.sort(key=lambda c: (c.lineno, c.col_offset))
                for c in calls:
                    d = dotted(c.func) or ''
                    in_cond = cond or isinstance(s, (ast.If, ast.For))
                    if d in ('self.send_response', 'self.send_header',
                             'self.end_headers', 'self.wfile.write'):
                        seq.append((d[5:], in_cond))
                    elif d.startswith('self.') and d.count('.') == 1 and \
                            depth < 2 and d[5:] not in RESP:
                        m = h.methods.get(d[5:])
                        if m is not None and m is not fn:
                            collect(m, in_cond, depth + 1)
        collect(f, False)
        names = [x for x, _ in seq]
        ok = names.count('send_response') == 1 and \
            names.count('end_headers') == 1 and \
            names and names[0] == 'send_response' and \
            not seq[0][1] and \
            'end_headers' in names and all(
                x in ('wfile.write',) for x in
                names[names.index('end_headers') + 1:]) and \
            not seq[names.index('end_headers')][1]
        r1.ob(ok, rn + ':sequence', {'function': rn, 'sequence': names})
        if not ok:
            rep.finding(r1, f.qualname, ' '.join(names), 'sequence', LS,
                        f.node.lineno, 'not exactly: one status line, then '
                        'headers, then end_headers(), then the body')
    # ---- R2 ---------------------------------------------------------------
    check_dynamic_idioms(repo)
    res = Resolver(repo)
    add_pywbem_dynamic(res, repo)
    by_elem, by_func = required_attrs_table(repo)

    # names bound to the request's parameter dictionary in do_POST
    req_dicts = set()
    for n in walk_no_nested(post.node):
        if isinstance(n, ast.Assign) and isinstance(n.targets[0], ast.Tuple) \
                and isinstance(n.value, ast.Call) and \
                dotted(n.value.func) == 'self.parse_export_request':
            req_dicts.add(norm(n.targets[0].elts[-1]))

    def key_receiver(sub, func):
        v = sub.value
        if func.file == LS and func.name == 'do_POST' and \
                norm(v) in req_dicts:
            return True
        return func.file == LS and isinstance(v, ast.Subscript) and \
            isinstance(v.slice, ast.Constant) and v.slice.value == 1

    def checked_by_helpers(func, sub):
        """facts established by check helpers called (as top-level
        statements) before the statement that contains `sub`: the
        conditions the helper ensures on normal return, with its parameters
        replaced by the arguments - valid while the argument locals are
        bound only once in the function"""
        from ..paths import ensures, _helper_of, _bind_args, _Subst
        import copy as _copy
        out = []
        stores = {}
        for x in ast.walk(func.node):
            if isinstance(x, ast.Name) and isinstance(x.ctx, ast.Store):
                stores[x.id] = stores.get(x.id, 0) + 1
        for st in func.body:
            if any(x is sub for x in ast.walk(st)):
                break
            if not (isinstance(st, ast.Expr) and
                    isinstance(st.value, ast.Call)):
                continue
            hfun = _helper_of(func, st.value)
            if hfun is None:
                continue
            args = _bind_args(hfun, st.value)
            if args is None or any(
                    isinstance(x, ast.Name) and stores.get(x.id, 0) > 1
                    for a in args.values() for x in ast.walk(a)):
                continue
            for e, pol in ensures(hfun):
                out.append((_Subst(args, '', set()).visit(
                    _copy.deepcopy(e)), pol))
        return out

    class EA(EscapeAnalysis):
        def _key_guarded(self, sub, key, facts, root):
            if EscapeAnalysis._key_guarded(self, sub, key, facts, root):
                return True
            if not isinstance(sub.value, ast.Subscript):
                return False
            bt = norm(sub.value.value)
            cur = getattr(self, '_cur_func', None)
            if cur is not None:
                facts = list(facts) + checked_by_helpers(cur, sub)
            for t, pol in facts:
                if isinstance(t, ast.Compare) and len(t.ops) == 1 and \
                        isinstance(t.left, ast.Subscript) and \
                        isinstance(t.left.slice, ast.Constant) and \
                        t.left.slice.value == 0 and \
                        norm(t.left.value) == bt:
                    elem = const_str(t.comparators[0])
                    is_eq = isinstance(t.ops[0], ast.Eq) and pol or \
                        isinstance(t.ops[0], ast.NotEq) and not pol
                    if elem and is_eq and key in by_elem.get(elem, ()):
                        return True
            return False

    def esc_filter(call, func, target, e):
        return target.file not in ('pywbem/_logging.py',)

    ea = EA(repo, res, key_receiver=key_receiver,
            conv_guard=conv_guard_factory(repo), esc_filter=esc_filter)
    ea.none_get_receivers = ('self.headers',)
    per = h.methods.get('parse_export_request')
    ea.solve([post, per])
    r2.functions.update([post.fq, per.fq])
    r2.sites = len(ea.analysed)
    for e in ea.summ.get(post.fq, {}).values():
        if e.kind == 'assert':
            continue
        if not (e.file == LS or (e.file == 'pywbem/_tupletree.py' and
                                 e.kind == 'conv')) and \
                not ea.h.is_sub(e.exc, 'Error'):
            # non-pywbem exceptions leaking out of the CIM-XML parser are
            # the subject of C02 (same parser, same analysis); here the
            # listener's own code, the conversions (ord/int/float) that
            # the XML text layer applies to the raw request text
            # (_tupletree.py; its argument-type checks are discharged in
            # C02 from the call sites), and the coverage of the parser's
            # pywbem errors by the except chain are judged
            continue
        r2.ob(False, '%s|%s|%s' % (e.func, e.construct, e.exc),
              {'origin': '%s: %s' % (e.func, e.construct),
               'escapes_do_POST': e.exc})
        rep.finding(r2, e.func, e.construct, e.exc, e.file, e.line,
                    '%s can propagate out of do_POST: the request gets no '
                    'HTTP response (connection dropped)' % e.exc,
                    path=list(e.chain) + [e.func])
    # obligations that were discharged: the handler chain covers the parser
    pes = {e.exc for e in ea.summ.get(per.fq, {}).values()
           if e.kind != 'assert'}
    r2.ob(True, 'parse_export_request:escape-set',
          {'parse_export_request_may_raise': sorted(pes)})
    r2.notes.append('functions analysed: %d; calls %s' % (
        len(ea.analysed), ea.call_stats))
    # ---- R5: the body read is bounded below ---------------------------------
    # rfile.read(n) with a negative n reads until the peer closes the
    # connection: the handler hangs and no response is sent.  The length
    # variable comes from int(header) (any integer) or from the -1 sentinel of
    # the except branch, so a guard `n < K: respond; return` with K >= 0 must
    # dominate the read.
    r5 = rep.rule('C17.R5', 'the request body is read with a length proven '
                  'non-negative')
    r5.functions.add(post.fq)
    from ..cfg import stmt_facts as _sf
    for rf in h.methods.values():
      post5 = rf
      if not any(isinstance(c_, ast.Call) and
                 dotted(c_.func) == 'self.rfile.read'
                 for c_ in walk_no_nested(rf.node)):
          continue
      r5.functions.add(rf.fq)
      pf = _sf(rf.node)
      for st, (fs, _) in pf.items():
        for c in ast.walk(st) if not isinstance(
                st, (ast.If, ast.For, ast.While, ast.Try, ast.With)) else []:
            if isinstance(c, ast.Call) and \
                    dotted(c.func) in ('self.rfile.read',) and c.args:
                r5.sites += 1
                a = c.args[0]
                lower = None
                from ..cfg import flag_facts
                fs = list(fs) + flag_facts(rf.node, st, fs)
                for t, pol in fs:
                    if isinstance(t, ast.Compare) and len(t.ops) == 1 and \
                            norm(t.left) == norm(a) and \
                            isinstance(t.comparators[0], (ast.Constant,
                                                          ast.UnaryOp)):
                        try:
                            k = ast.literal_eval(t.comparators[0])
                        except ValueError:
                            continue
                        if not isinstance(k, int):
                            continue
                        if isinstance(t.ops[0], ast.Lt) and not pol:
                            lower = max(lower, k) if lower is not None else k
                        elif isinstance(t.ops[0], ast.LtE) and not pol:
                            lower = max(lower, k + 1) \
                                if lower is not None else k + 1
                        elif isinstance(t.ops[0], ast.GtE) and pol:
                            lower = max(lower, k) if lower is not None else k
                        elif isinstance(t.ops[0], ast.Gt) and pol:
                            lower = max(lower, k + 1) \
                                if lower is not None else k + 1
                ok = lower is not None and lower >= 0
                r5.ob(ok, rf.name + ':' + norm(c),
                      {'read': norm(c), 'proven_lower_bound': lower})
                if not ok:
                    rep.finding(r5, rf.qualname, norm(c), 'unbounded-read',
                                LS, c.lineno,
                                'the length passed to rfile.read() is not '
                                'proven >= 0 on this path (lower bound: %s): '
                                'a negative length (e.g. the -1 sentinel for '
                                'an invalid Content-Length) reads until the '
                                'peer closes the connection - no response is '
                                'sent' % lower)
    if r5.sites == 0:
        raise AnalysisError('do_POST: rfile.read() not found')
    # ---- R7: requests are handled concurrently --------------------------------
    # socketserver.ThreadingMixIn only takes effect when it precedes the
    # server class in the bases (its process_request must win the method
    # resolution); otherwise one stalled request (Content-Length larger than
    # the bytes sent) blocks the accept loop and every later indication.
    r7 = rep.rule('C17.R7', 'the listener server class resolves '
                  'process_request to the threading mix-in')
    lmod = repo.module(LS)
    servers = [c for c in lmod.classes.values()
               if any('Server' in norm(b) for b in c.node.bases)]
    if not servers:
        raise AnalysisError('no HTTP server class in the listener module')
    for c in servers:
        r7.sites += 1
        bases = [norm(b) for b in c.node.bases]
        mix = [i for i, b in enumerate(bases) if 'ThreadingMixIn' in b or
               'ForkingMixIn' in b]
        srv = [i for i, b in enumerate(bases) if b.split('.')[-1] in (
            'HTTPServer', 'TCPServer', 'BaseServer', 'UnixStreamServer')]
        own = 'process_request' in c.methods
        ok = own or (bool(mix) and bool(srv) and min(mix) < min(srv)) or \
            any(b.split('.')[-1] == 'ThreadingHTTPServer' for b in bases)
        r7.ob(ok, c.name, {'class': c.name, 'bases': bases})
        if not ok:
            rep.finding(r7, c.name, 'class %s(%s)' % (c.name,
                                                      ', '.join(bases)),
                        'mixin-order', LS, c.node.lineno,
                        'the threading mix-in does not precede the server '
                        'class in the bases, so process_request() resolves '
                        'to the non-threading BaseServer implementation: '
                        'requests are handled one at a time in the accept '
                        'loop and a request that stalls (Content-Length '
                        'larger than what was sent) blocks all later '
                        'indications')
    content_length_rule(rep, h, 'C17.R6')
    # ---- R3 ---------------------------------------------------------------
    she = h.methods['send_http_error']
    r3.functions.update([she.fq, post.fq])
    sinks = {}     # param -> header name
    for c in walk_no_nested(she.node):
        if isinstance(c, ast.Call) and dotted(c.func) == 'self.send_header' \
                and len(c.args) == 2 and isinstance(c.args[1], ast.Name) and \
                c.args[1].id in she.params:
            sinks[c.args[1].id] = const_str(c.args[0]) or norm(c.args[0])
    params = [p for p in she.params if p != 'self']
    # tainted names in do_POST
    tainted = set()
    for n in walk_no_nested(post.node):
        if isinstance(n, ast.Assign) and isinstance(n.value, ast.Call) and \
                dotted(n.value.func) == 'self.headers.get':
            for t in n.targets:
                if isinstance(t, ast.Name):
                    tainted.add(t.id)
        if isinstance(n, ast.ExceptHandler) and n.name:
            tainted.add(n.name)
        if isinstance(n, ast.Assign) and isinstance(n.targets[0], ast.Tuple) \
                and isinstance(n.value, ast.Call) and \
                dotted(n.value.func) == 'self.parse_export_request':
            for x in n.targets[0].elts:
                if isinstance(x, ast.Name):
                    tainted.add(x.id)

    def is_tainted(expr):
        for x in ast.walk(expr):
            if isinstance(x, ast.Name) and x.id in tainted:
                return x.id
        return None

    def sanitised(expr):
        # a call to a function whose name says it encodes/quotes, or a
        # .replace chain removing both CR and LF
        for x in ast.walk(expr):
            if isinstance(x, ast.Call):
                d = dotted(x.func) or ''
                last = d.split('.')[-1]
                if last in ('quote', 'quote_plus'):
                    safe = quote_safe_chars(x, lmod)
                    if safe is None:
                        raise AnalysisError(
                            'send_http_error: the safe= set of %s cannot be '
                            'evaluated' % norm(x, 80))
                    if '\r' not in safe and '\n' not in safe:
                        return True
                    continue
                if last == 'urlencode' or \
                        'sanit' in last or 'single_line' in last:
                    return True
        txt = norm(expr, 2000)
        return ".replace('\\r'" in txt and ".replace('\\n'" in txt
    # sanitiser inside send_http_error itself?
    inner_clean = set()
    for p in sinks:
        for n in walk_no_nested(she.node):
            if isinstance(n, ast.Assign) and norm(n.targets[0]) == p and \
                    sanitised(n.value):
                inner_clean.add(p)
    by_sink = {}
    for c in walk_no_nested(post.node):
        if isinstance(c, ast.Call) and dotted(c.func) == 'self.send_http_error':
            r3.sites += 1
            for i, a in enumerate(c.args):
                if i < len(params) and params[i] in sinks:
                    t = is_tainted(a)
                    ok = t is None or sanitised(a) or \
                        params[i] in inner_clean
                    r3.ob(ok, 'send_http_error:%s:%s' % (params[i],
                                                         norm(a, 60)),
                          {'header': sinks[params[i]], 'value': norm(a, 80),
                           'request_derived': t})
                    if not ok:
                        by_sink.setdefault(params[i], []).append((c, a, t))
            for k in c.keywords:
                if k.arg in sinks:
                    t = is_tainted(k.value)
                    ok = t is None or sanitised(k.value) or \
                        k.arg in inner_clean
                    r3.ob(ok, 'send_http_error:%s:%s' % (k.arg,
                                                         norm(k.value, 60)))
                    if not ok:
                        by_sink.setdefault(k.arg, []).append((c, k.value, t))
    for p, lst in sorted(by_sink.items()):
        if p in inner_clean:
            continue
        c, a, t = lst[0]
        rep.finding(r3, she.qualname, '%s <- %s' % (sinks[p], p), 'crlf', LS,
                    she.node.lineno,
                    'request-derived text reaches the %s header value '
                    'without removing CR/LF (%d call sites in do_POST, e.g. '
                    '%s from %r): a multi-line parse error message or a '
                    'folded request header yields an ill-formed response'
                    % (sinks[p], len(lst), norm(a, 60), t))
    if not sinks:
        raise AnalysisError('send_http_error: header sinks not found')
    # ---- R3b: header values must be latin-1 encodable ----------------------
    # BaseHTTPRequestHandler.send_header() encodes the line with
    # ('latin-1', 'strict').  Request *header* values were decoded from
    # latin-1 by http.client and are encodable again; text derived from the
    # request *body* (parser exceptions, parsed values) is arbitrary Unicode
    # and must pass an escaping step before it reaches send_header().
    body_tainted = set()
    for n in walk_no_nested(post.node):
        if isinstance(n, ast.ExceptHandler) and n.name:
            body_tainted.add(n.name)
        if isinstance(n, ast.Assign) and isinstance(n.targets[0], ast.Tuple) \
                and isinstance(n.value, ast.Call) and \
                dotted(n.value.func) == 'self.parse_export_request':
            for x in n.targets[0].elts:
                if isinstance(x, ast.Name):
                    body_tainted.add(x.id)

    def latin1_safe(expr):
        for x in ast.walk(expr):
            if isinstance(x, ast.Call):
                d = dotted(x.func) or ''
                last = d.split('.')[-1]
                if last in ('quote', 'quote_plus', 'urlencode', 'ascii'):
                    return True
                if last == 'encode' and x.args:
                    enc = (const_str(x.args[0]) or '').lower().replace(
                        '_', '-')
                    err = None
                    if len(x.args) > 1:
                        err = const_str(x.args[1])
                    for k in x.keywords:
                        if k.arg == 'errors':
                            err = const_str(k.value)
                    if enc in ('ascii', 'latin-1', 'latin1', 'iso-8859-1',
                               'us-ascii') and \
                            err in ('replace', 'backslashreplace',
                                    'xmlcharrefreplace', 'namereplace',
                                    'ignore'):
                        return True
        return False
    inner_l1 = set()
    for p in sinks:
        for n in walk_no_nested(she.node):
            if isinstance(n, ast.Assign) and norm(n.targets[0]) == p and \
                    latin1_safe(n.value):
                inner_l1.add(p)
    bad_l1 = {}
    for c in walk_no_nested(post.node):
        if not (isinstance(c, ast.Call) and
                dotted(c.func) == 'self.send_http_error'):
            continue
        pairs = [(params[i], a) for i, a in enumerate(c.args)
                 if i < len(params)] + \
            [(k.arg, k.value) for k in c.keywords]
        for pn, a in pairs:
            if pn not in sinks:
                continue
            t = next((x.id for x in ast.walk(a) if isinstance(x, ast.Name)
                      and x.id in body_tainted), None)
            if t is None:
                continue
            r3b.sites += 1
            ok = latin1_safe(a) or pn in inner_l1
            r3b.ob(ok, 'latin1:%s:%s' % (pn, norm(a, 60)),
                   {'header': sinks[pn], 'body_derived': t})
            if not ok:
                bad_l1.setdefault(pn, []).append((a, t))
    r3b.functions.update([she.fq, post.fq])
    for pn, lst in sorted(bad_l1.items()):
        a, t = lst[0]
        rep.finding(r3b, she.qualname, '%s <- %s' % (sinks[pn], pn),
                    'latin1', LS, she.node.lineno,
                    'text derived from the request body reaches the %s '
                    'header value without an escaping step (%d call sites in '
                    'do_POST, e.g. %s from %r): send_header() encodes the '
                    'line as latin-1/strict, so a request whose error message '
                    'contains a character above U+00FF (e.g. a '
                    'PROTOCOLVERSION of U+20AC) raises UnicodeEncodeError in '
                    'the handler and the connection is dropped without a '
                    'response' % (sinks[pn], len(lst), norm(a, 60), t))
    if r3b.sites < 1:
        raise AnalysisError('do_POST: no body-derived header text found')
    # ---- R4 ---------------------------------------------------------------
    inv = h.methods.get('invalid_method')
    from ..flow import value_of
    from ..inline import Flat
    from ..paths import return_paths
    from ..model import fold_const, NotConst

    def is_405(func, e):
        try:
            return fold_const(value_of(func, e)) == 405
        except NotConst:
            return False
    ok = False
    if inv is not None:
        ps_ = [p_ for p_ in she.params if p_ != 'self']
        for c in walk_no_nested(inv.node):
            if not (isinstance(c, ast.Call) and
                    dotted(c.func) == 'self.send_http_error' and
                    not any(isinstance(a_, ast.Starred) for a_ in c.args)):
                continue
            given = dict(zip(ps_, c.args))
            given.update({k.arg: k.value for k in c.keywords if k.arg})
            code = given.get(ps_[0]) if ps_ else None
            hdrs = given.get('headers')
            if code is not None and hdrs is not None and \
                    is_405(inv, code) and \
                    "'Allow'" in norm(value_of(inv, hdrs), 400):
                ok = True
    r4.ob(ok, 'invalid_method')
    if not ok:
        rep.finding(r4, 'ListenerRequestHandler.invalid_method',
                    'send_http_error(405, headers=[(Allow, POST)])', '405',
                    LS, inv.node.lineno if inv else h.node.lineno,
                    'invalid_method does not answer 405 with an Allow '
                    'header')
    for v in VERBS:
        r4.sites += 1
        f = h.methods.get('do_' + v)
        ok = f is not None
        if ok:
            # every way through the handler calls invalid_method()
            ff = Flat(f, keep=('invalid_method',), aliases=True)
            pths = return_paths(ff, max_paths=32, inline=False)
            ok = bool(pths) and all(
                any(isinstance(c, ast.Call) and
                    dotted(c.func) == 'self.invalid_method'
                    for st in p_.effects for c in ast.walk(st))
                for p_ in pths)
        r4.ob(ok, 'do_' + v, {'verb': v})
        if not ok:
            rep.finding(r4, 'ListenerRequestHandler.do_' + v, 'do_' + v,
                        'verb', LS, f.node.lineno if f else h.node.lineno,
                        'HTTP method %s is not answered with 405 via '
                        'invalid_method()' % v.replace('_', '-'))


def property_call_rule(repo, rep):
    """C17.R8: on the request path nothing calls a property.  `self.x()`
    where x is a @property evaluates the property and then calls its value;
    for the int-valued properties of the listener that raises TypeError in
    the handler thread, socketserver closes the connection without a
    response, and - when it happens in the branch that resets a state flag -
    every later request fails the same way."""
    r8 = rep.rule('C17.R8', 'properties are not called like methods')
    mod = repo.module(LS)
    n = 0
    for c in mod.classes.values():
        props = set()
        for k in c.mro():
            for f in k.node.body:
                if isinstance(f, ast.FunctionDef) and any(
                        (isinstance(d, ast.Name) and d.id == 'property') or
                        (isinstance(d, ast.Attribute) and
                         d.attr in ('getter',))
                        for d in f.decorator_list):
                    props.add(f.name)
        for f in c.methods.values():
            for x in walk_no_nested(f.node):
                if isinstance(x, ast.Call) and \
                        isinstance(x.func, ast.Attribute) and \
                        isinstance(x.func.value, ast.Name) and \
                        x.func.value.id == 'self':
                    n += 1
                    bad = x.func.attr in props
                    if bad or x.func.attr in c.methods:
                        r8.sites += 1
                        r8.functions.add(f.fq)
                    if bad:
                        r8.ob(False, '%s|%s' % (f.qualname, norm(x, 50)))
                        rep.finding(r8, f.qualname, norm(x, 60),
                                    'property-called', LS, x.lineno,
                                    '%s.%s is a property; calling it calls '
                                    'the value it returns (TypeError: ... '
                                    'object is not callable).  On the '
                                    'request path the exception escapes '
                                    'the handler: the connection is dropped '
                                    'without a response' % (c.name,
                                                            x.func.attr))
    if n < 30:
        raise AnalysisError('listener: only %d self.* calls found' % n)
    # other objects of the listener: `<expr>.listener.<prop>()` etc. are
    # out of reach without types; the handler reaches the listener through
    # self.server.listener
    lis = repo.cls(LS, 'WBEMListener')
    lprops = {f.name for f in lis.node.body
              if isinstance(f, ast.FunctionDef) and
              any(isinstance(d, ast.Name) and d.id == 'property'
                  for d in f.decorator_list)}
    for c in mod.classes.values():
        for f in c.methods.values():
            for x in walk_no_nested(f.node):
                if isinstance(x, ast.Call) and \
                        isinstance(x.func, ast.Attribute) and \
                        x.func.attr in lprops and \
                        norm(x.func.value).endswith('listener'):
                    rep.finding(r8, f.qualname, norm(x, 60),
                                'property-called', LS, x.lineno,
                                'WBEMListener.%s is a property and is '
                                'called' % x.func.attr)


# http.server.BaseHTTPRequestHandler: what exists on the handler object when
# the base class itself answers a request whose request line it rejects
# (parse_request() -> send_error() -> send_response() -> log_request(),
# send_header('Server', version_string()), log_error() -> log_message()).
# parse_request() has then set command (None), request_version, requestline,
# close_connection; `path` is assigned only after the request line passed
# all checks and `headers` only after the header block was parsed.
STDLIB_EARLY_HOOKS = ('log_request', 'log_error', 'log_message',
                      'version_string', 'send_response',
                      'send_response_only', 'send_header', 'end_headers',
                      'date_time_string', 'address_string',
                      'log_date_time_string', 'flush_headers', 'send_error')
STDLIB_LATE_ATTRS = ('path', 'headers')


def early_hooks_rule(repo, rep):
    """C17.R10: the methods of the request handler that the base class calls
    while it rejects a malformed request line (logging hooks, version
    string, overridden send_* methods) do not read `self.path` or
    `self.headers`: those attributes do not exist yet, the AttributeError
    ends the handler thread and the client gets no response instead of the
    400 / 414 the base class was about to send."""
    r10 = rep.rule('C17.R10', 'hooks the base class calls for rejected '
                   'request lines read no handler attribute that is set '
                   'only after successful parsing')
    h = repo.cls(LS, 'ListenerRequestHandler')
    over = [h.methods[n] for n in STDLIB_EARLY_HOOKS if n in h.methods]
    if len(over) < 3:
        raise AnalysisError('ListenerRequestHandler overrides only %d of the '
                            'base class hooks (log_request / log_error / '
                            'log_message / version_string expected)'
                            % len(over))
    seen, work = [], list(over)
    while work:
        f = work.pop()
        if f in seen:
            continue
        seen.append(f)
        for n in walk_no_nested(f.node):
            if isinstance(n, ast.Call):
                d = dotted(n.func) or ''
                if d.startswith('self.') and d.count('.') == 1:
                    m = h.methods.get(d[5:])
                    if m is not None and not m.is_property():
                        work.append(m)
    for f in seen:
        r10.sites += 1
        r10.functions.add(f.fq)
        bad = [n for n in walk_no_nested(f.node)
               if isinstance(n, ast.Attribute) and
               isinstance(n.value, ast.Name) and n.value.id == 'self' and
               n.attr in STDLIB_LATE_ATTRS and isinstance(n.ctx, ast.Load)]
        r10.ob(not bad, f.qualname)
        for n in bad[:1]:
            rep.finding(r10, f.qualname, norm(n), 'late-attribute', LS,
                        n.lineno,
                        '%s is read in a method the base class calls while '
                        'it answers a request line it rejects (more than '
                        'three words, too long, bad version); the attribute '
                        'is assigned only after the request line passed '
                        'those checks: AttributeError, the connection is '
                        'dropped without a response' % norm(n))
