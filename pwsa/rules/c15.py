"""C15 - Iter... operations equal the traditional result and clean up.

The 7 Iter* methods are siblings of one template; the rules check the
control skeleton and the operation triples.
"""
import ast

from ..model import (AnalysisError, walk_no_nested, dotted, norm, kwarg,
                     eqsrc)
from ..ops import OPS, iter_operations
from ..cfg import always_exits

EXPLANATION = (
    "Sibling-template check of the 7 Iter* methods of WBEMConnection: each "
    "validates OperationTimeout/MaxObjectCount first; guards the pull branch "
    "with its own _use_*_pull_operations flag (7 pairwise distinct flags, "
    "all initialised from use_pull_operations in __init__); the open/pull "
    "loop sits in try/finally whose finally calls CloseEnumeration("
    "pull_result.context) under `pull_result is not None and not "
    "pull_result.eos`, with pull_result reset to None on normal completion; "
    "the CIMError handler downgrades only when the flag is None and the "
    "status is CIM_ERR_NOT_SUPPORTED/CIM_ERR_FAILED and re-raises otherwise; "
    "the flag is set True only after the Open call returned; the fallback "
    "refuses FilterQuery/FilterQueryLanguage/ContinueOnError "
    "(ReturnQueryResultClass for the query variant) with ValueError before "
    "the traditional call; the (Open, Pull, traditional) triple is the "
    "DSP0200 one and every common parameter is passed through by name; "
    "fallbacks whose traditional response carries no namespace/host "
    "complete both before yielding. Decides these necessary structural "
    "conditions; equality of the yielded objects is not decided.")
ASSUMPTIONS = [
    "generator close()/GC raises GeneratorExit at the suspended yield, so a "
    "finally clause around every yield is what runs on early exit",
    "DSP0200 operation triples (frozen table in the rule)",
]

TRADITIONAL = {
    'IterEnumerateInstances': 'EnumerateInstances',
    'IterEnumerateInstancePaths': 'EnumerateInstanceNames',
    'IterAssociatorInstances': 'Associators',
    'IterAssociatorInstancePaths': 'AssociatorNames',
    'IterReferenceInstances': 'References',
    'IterReferenceInstancePaths': 'ReferenceNames',
    'IterQueryInstances': 'ExecQuery',
}
# traditional operations whose response element has no host/namespace
# (INSTANCENAME / VALUE.NAMEDINSTANCE): the fallback must complete both
NEEDS_PATH_COMPLETION = {'EnumerateInstances', 'EnumerateInstanceNames'}


def pull_for(itername):
    if itername.endswith('InstancePaths'):
        return 'PullInstancePaths'
    if itername == 'IterQueryInstances':
        return 'PullInstances'
    return 'PullInstancesWithPath'


def self_calls(node, name=None):
    out = []
    for n in walk_no_nested(node):
        if isinstance(n, ast.Call):
            d = dotted(n.func)
            if d and d.startswith('self.') and d.count('.') == 1:
                if name is None or d == 'self.' + name:
                    out.append(n)
    return out


class _B(ast.AST):
    _fields = ('body',)

    def __init__(self, body):
        self.body = list(body)


def run(repo, rep, tier):
    r1 = rep.rule('C15.R1', 'close on every early exit')
    r2 = rep.rule('C15.R2', 'one pull flag per family, used consistently')
    r3 = rep.rule('C15.R3', 'fallback conditions')
    r4 = rep.rule('C15.R4', 'documented refusals and validation first')
    r5 = rep.rule('C15.R5', 'operation triples and parameter pass-through')
    r6 = rep.rule('C15.R6', 'path completion in the traditional fallback')
    from .c04 import explicit_namespace_wins
    explicit_namespace_wins(repo, rep, 'C15.R7')
    pull_switch_rule(repo, rep)
    from .c14 import timeout_zero_is_never
    timeout_zero_is_never(repo, rep, 'C15.R10')
    from .c13 import adapter_keys_agree
    adapter_keys_agree(repo, rep, 'C15.R9', lambda op: op.startswith(('Open', 'Pull', 'Close')) or op in ('EnumerateInstances', 'EnumerateInstanceNames', 'Associators', 'AssociatorNames', 'References', 'ReferenceNames', 'ExecQuery'), 60)
    conn = repo.cls(OPS, 'WBEMConnection')
    iters = iter_operations(repo)
    if len(iters) != 7:
        raise AnalysisError('expected 7 Iter* methods, found %d'
                            % len(iters))
    flags = {}
    for f in iters:
        name = f.name
        for r in (r1, r2, r3, r4, r5, r6):
            r.functions.add(f.fq)
        body = f.body
        # ---- R4: validators first -------------------------------------
        r4.sites += 1
        lead = []
        for s in body:
            if isinstance(s, ast.Expr) and isinstance(s.value, ast.Call):
                lead.append(dotted(s.value.func))
            else:
                break
        ok = '_validate_MaxObjectCount_Iter' in lead
        r4.ob(ok, name + ':validate-max', {'iter': name, 'leading_calls':
                                           lead})
        if not ok:
            rep.finding(r4, f.qualname, '_validate_MaxObjectCount_Iter',
                        'not-first', OPS, f.node.lineno,
                        '_validate_MaxObjectCount_Iter is not called before '
                        'any operation is issued')
        ok = '_validate_OperationTimeout' in lead
        r4.ob(ok, name + ':validate-timeout')
        if not ok:
            rep.finding(r4, f.qualname, '_validate_OperationTimeout',
                        'not-first', OPS, f.node.lineno,
                        '_validate_OperationTimeout is not called first')
        # ---- locate the pull branch -----------------------------------
        pull_if = None
        for s in body:
            if isinstance(s, ast.If):
                names = {dotted(n) for n in ast.walk(s.test)
                         if isinstance(n, ast.Attribute)}
                fl = [n for n in names if n and n.startswith('self._use_')
                      and n.endswith('_pull_operations')]
                if fl:
                    pull_if = s
                    flag = fl[0]
                    break
        if pull_if is None:
            rep.finding(r2, f.qualname, 'if self._use_*_pull_operations',
                        'no-flag-test', OPS, f.node.lineno,
                        'pull branch guarded by a pull flag not found')
            continue
        flags[name] = flag
        r2.sites += 1
        want_test = '%s is None or %s' % (flag, flag)
        ok = eqsrc(pull_if.test, want_test) and len(fl) == 1
        r2.ob(ok, name + ':flag-test', {'iter': name, 'flag': flag,
                                        'test': norm(pull_if.test)})
        if not ok:
            rep.finding(r2, f.qualname, norm(pull_if.test), 'flag-test',
                        OPS, pull_if.lineno,
                        'pull branch is not entered exactly when the flag '
                        'is None or True')
        # every flag attribute mentioned anywhere in the function is the
        # same one
        used = {dotted(n) for n in walk_no_nested(f.node)
                if isinstance(n, ast.Attribute) and
                (dotted(n) or '').startswith('self._use_') and
                (dotted(n) or '').endswith('_pull_operations')}
        ok = used == {flag}
        r2.ob(ok, name + ':single-flag', {'flags_used': sorted(used)})
        if not ok:
            rep.finding(r2, f.qualname, ', '.join(sorted(used)),
                        'mixed-flags', OPS, f.node.lineno,
                        'more than one pull flag is used in this iterator: '
                        'what one operation learned changes another')
        # ---- R1: try/finally ------------------------------------------
        r1.sites += 1
        outer = [s for s in pull_if.body if isinstance(s, ast.Try)]
        outer = outer[0] if outer else None
        if outer is None or not outer.finalbody:
            rep.finding(r1, f.qualname, 'try/finally', 'no-finally', OPS,
                        pull_if.lineno, 'open/pull loop is not protected by '
                        'try/finally: early exit leaves the enumeration '
                        'open on the server')
            continue
        # the finally clause closes the enumeration exactly when a result
        # exists and its eos is false: every CloseEnumeration call in it
        # runs under those two facts (also when they are held in a flag
        # local) and passes the context of that result
        from ..cfg import stmt_facts as _sf15, flag_facts as _ff15
        sfacts = _sf15(f.node)
        closes = []
        for st_, (fs_, _t) in sfacts.items():
            if isinstance(st_, (ast.If, ast.For, ast.While, ast.Try,
                                ast.With)):
                continue
            if not any(st_ is x for fb in outer.finalbody
                       for x in ast.walk(fb)):
                continue
            for c_ in self_calls(st_, 'CloseEnumeration'):
                closes.append((st_, c_, list(fs_) + _ff15(f.node, st_, fs_)))
        close_ok = bool(closes)
        for st_, c_, fs_ in closes:
            arg = norm(c_.args[0] if c_.args else None)
            var = arg[:-len('.context')] if arg.endswith('.context') else None
            have = {(norm(t_), p_) for t_, p_ in fs_}
            if var is None or \
                    not ((var + ' is not None', True) in have or
                         (var + ' is None', False) in have) or \
                    not ((var + '.eos', False) in have or
                         ('not %s.eos' % var, True) in have):
                close_ok = False
        r1.ob(close_ok, name + ':finally-close',
              {'iter': name, 'finally': [norm(s, 200)
                                         for s in outer.finalbody]})
        if not close_ok:
            rep.finding(r1, f.qualname, 'finally: CloseEnumeration',
                        'finally-shape', OPS, outer.lineno,
                        'finally does not call CloseEnumeration('
                        'pull_result.context) exactly when an enumeration is '
                        'open (pull_result is not None and not '
                        'pull_result.eos)')
        # all yields / open / pull calls of the pull branch are inside the
        # outer try body
        inside = set()
        for s in outer.body:
            for n in walk_no_nested(s):
                inside.add(id(n))
        stray = []
        for n in walk_no_nested(_B(pull_if.body)):
            if isinstance(n, (ast.Yield, ast.YieldFrom)) and \
                    id(n) not in inside:
                stray.append(n)
            if isinstance(n, ast.Call) and (dotted(n.func) or '').startswith(
                    ('self.Open', 'self.Pull')) and id(n) not in inside:
                stray.append(n)
        ok = not stray
        r1.ob(ok, name + ':all-in-try')
        if not ok:
            rep.finding(r1, f.qualname, norm(stray[0]), 'outside-try', OPS,
                        stray[0].lineno, 'open/pull/yield outside the '
                        'try/finally that closes the enumeration')
        # inner try with CIMError handler
        inner = [s for s in outer.body if isinstance(s, ast.Try)]
        inner = inner[0] if inner else None
        if inner is None:
            rep.finding(r3, f.qualname, 'try/except CIMError', 'no-handler',
                        OPS, outer.lineno, 'no CIMError handler around the '
                        'open/pull loop')
            continue
        # pull_result reset after normal completion: the last assignment to
        # pull_result in the try body is `= None` and follows the last pull
        # call; the body ends with return
        assigns = [n for n in walk_no_nested(_B(inner.body))
                   if isinstance(n, ast.Assign) and
                   any(norm(t) == 'pull_result' for t in n.targets)]
        top = [s for s in inner.body]
        reset_ok = False
        for i, s in enumerate(top):
            if isinstance(s, ast.Assign) and norm(s) == 'pull_result = None':
                rest = top[i + 1:]
                if all(isinstance(x, ast.Return) for x in rest) and rest:
                    reset_ok = True
        r1.ob(reset_ok, name + ':reset',
              {'pull_result_assignments': [norm(a, 80) for a in assigns]})
        if not reset_ok:
            rep.finding(r1, f.qualname, 'pull_result = None', 'no-reset',
                        OPS, inner.lineno, 'pull_result is not cleared '
                        'before the normal return of the pull branch '
                        '(finally would close an exhausted enumeration or '
                        'the pattern changed)')
        # ---- R5: open / pull / traditional -----------------------------
        r5.sites += 1
        open_name = 'Open' + name[len('Iter'):]
        open_calls = self_calls(_B(inner.body), open_name)
        first = inner.body[0] if inner.body else None
        ok = len(open_calls) == 1 and isinstance(first, ast.Assign) and \
            first.value is open_calls[0] and \
            norm(first.targets[0]) == 'pull_result'
        r5.ob(ok, name + ':open', {'iter': name, 'open': open_name})
        if not ok:
            rep.finding(r5, f.qualname, open_name, 'open-call', OPS,
                        inner.lineno, 'the pull branch does not start with '
                        'pull_result = self.%s(...)' % open_name)
        pname = pull_for(name)
        pulls = [c for c in self_calls(_B(inner.body))
                 if dotted(c.func).startswith('self.Pull')]
        from ..flow import value_of as _vo
        ok = bool(pulls) and all(dotted(c.func) == 'self.' + pname and
                                 c.args and
                                 norm(_vo(f, c.args[0])) ==
                                 'pull_result.context'
                                 for c in pulls)
        r5.ob(ok, name + ':pull', {'iter': name, 'pull': pname})
        if not ok:
            rep.finding(r5, f.qualname, ', '.join(norm(c.func)
                                                  for c in pulls) or 'none',
                        'pull-call', OPS, inner.lineno,
                        'pull loop does not use %s(pull_result.context, ...)'
                        % pname)
        # pull protocol (typestate on the CFG): every result delivered, a
        # Pull only after eos false, normal end only after eos true
        from ..pullproto import check as proto_check
        gen = f.node
        for x in ast.walk(f.node):
            if isinstance(x, (ast.FunctionDef, ast.AsyncFunctionDef)) and \
                    any(y is inner for y in ast.walk(x)):
                gen = x            # innermost function holding the loop
        probs, pstats = proto_check(gen, 'pull_result')
        ok = not probs and pstats['pull_sites'] >= 1 and \
            pstats['end_sites'] >= 1
        r5.ob(ok, name + ':pull-protocol', pstats)
        if not probs and not ok:
            rep.finding(r5, f.qualname, 'pull loop', 'loop-cond', OPS,
                        inner.lineno, 'no Pull call / no normal end of the '
                        'pull branch reachable from the Open result (%s)'
                        % pstats)
        seenk = set()
        for kind, node, text in probs:
            if kind in seenk:
                continue
            seenk.add(kind)
            rep.finding(r5, f.qualname, 'pull loop: ' + kind, 'loop-cond',
                        OPS, getattr(node, 'lineno', inner.lineno), text)
        # flag set True only after open
        sets_true = [(i, s) for i, s in enumerate(inner.body)
                     if isinstance(s, ast.Assign) and
                     norm(s) == flag + ' = True']
        ok = len(sets_true) == 1 and sets_true[0][0] == 1
        r2.ob(ok, name + ':set-true-after-open')
        if not ok:
            rep.finding(r2, f.qualname, flag + ' = True', 'set-true', OPS,
                        inner.lineno, 'the flag is not set True directly '
                        'after the Open call returned')
        # ---- R3: handler -----------------------------------------------
        r3.sites += 1
        hs = [h for h in inner.handlers]
        ok = len(hs) == 1 and norm(hs[0].type) == 'CIMError' and \
            hs[0].name is not None
        hshape = False
        hwhy = ''
        if ok:
            h = hs[0]
            ev = h.name
            from ..paths import block_paths
            from ..relfacts import split as fsplit, atom as fatom
            hpaths = block_paths(h.body, f)
            if hpaths is None:
                raise AnalysisError('%s: handler has too many paths' % name)
            want = {(flag, 'none', True),
                    (ev + '.status_code',
                     'in:CIM_ERR_FAILED,CIM_ERR_NOT_SUPPORTED', True)}
            good = 0
            hshape = True
            for hp in hpaths:
                atoms = set()
                for t, pol in hp.facts:
                    for t2, p2 in fsplit(t, pol):
                        a_ = None
                        if isinstance(t2, ast.Compare) and \
                                len(t2.ops) == 1 and isinstance(
                                    t2.ops[0], (ast.In, ast.NotIn)) and \
                                isinstance(t2.comparators[0],
                                           (ast.Tuple, ast.List, ast.Set)):
                            els = sorted(norm(e) for e in
                                         t2.comparators[0].elts)
                            a_ = (norm(t2.left), 'in:' + ','.join(els),
                                  p2 != isinstance(t2.ops[0], ast.NotIn))
                        else:
                            a_ = fatom(t2, p2)
                        if a_ is None:
                            a_ = (norm(t2, 80), '?', p2)
                        atoms.add(a_)
                sets_false = any(isinstance(e, ast.Assign) and
                                 norm(e) == flag + ' = False'
                                 for e in hp.effects)
                other = [e for e in hp.effects
                         if isinstance(e, (ast.Assign, ast.AugAssign)) and
                         norm(e) != flag + ' = False']
                if atoms == want and sets_false and not other:
                    good += 1
                else:
                    hshape = False
                    hwhy = 'a path that does not re-raise holds under [%s]%s' \
                        % (', '.join('%s%s %s' % ('' if p_ else 'not ', s_,
                                                  k_) for s_, k_, p_ in
                                     sorted(atoms)),
                           '' if sets_false else ' and does not set the '
                           'flag to False')
            if good < 1:
                hshape = False
                hwhy = hwhy or 'no path downgrades to the traditional ' \
                    'operation'
        r3.ob(ok and hshape, name + ':handler',
              {'iter': name,
               'handler': norm(hs[0].body[0], 300) if hs and hs[0].body
               else None})
        if not (ok and hshape):
            rep.finding(r3, f.qualname, 'except CIMError', 'handler-shape',
                        OPS, inner.lineno,
                        'the handler does not downgrade exactly when the '
                        'flag is None and status is NOT_SUPPORTED/FAILED, '
                        're-raising otherwise' + (' (%s)' % hwhy if hwhy
                                                  else ''))
        # ---- fallback section -------------------------------------------
        idx = body.index(pull_if)
        tail = body[idx + 1:]
        trad = TRADITIONAL[name]
        tcalls = self_calls(_B(tail), trad)
        ok = len(tcalls) == 1
        r5.ob(ok, name + ':traditional', {'iter': name, 'traditional': trad})
        if not ok:
            rep.finding(r5, f.qualname, trad, 'traditional-call', OPS,
                        f.node.lineno, 'fallback does not call self.%s '
                        'exactly once' % trad)
            continue
        tcall = tcalls[0]
        other_ops = [c for c in self_calls(_B(tail))
                     if dotted(c.func)[5:6].isupper() and c is not tcall]
        ok = not other_ops
        r5.ob(ok, name + ':only-traditional')
        if not ok:
            rep.finding(r5, f.qualname, norm(other_ops[0].func),
                        'extra-operation', OPS, other_ops[0].lineno,
                        'fallback issues another operation')
        # parameter pass-through by name
        for callee_name, call in ((open_name, open_calls[0]
                                   if open_calls else None),
                                  (trad, tcall)):
            if call is None:
                continue
            cf = conn.methods.get(callee_name)
            if cf is None:
                raise AnalysisError('WBEMConnection.%s vanished'
                                    % callee_name)
            cparams = [p for p in cf.params if p != 'self']
            passed = {}
            for i, a in enumerate(call.args):
                if i < len(cparams):
                    passed[cparams[i]] = a
            for k in call.keywords:
                if k.arg is not None:
                    passed[k.arg] = k.value
            iparams = [p for p in f.params if p != 'self']
            # query variant: ExecQuery's QueryLanguage/Query are the
            # Filter* parameters (family exception)
            alias = {}
            if name == 'IterQueryInstances' and callee_name == 'ExecQuery':
                alias = {'QueryLanguage': 'FilterQueryLanguage',
                         'Query': 'FilterQuery'}
            for cp in cparams:
                ip = alias.get(cp, cp)
                if ip not in iparams:
                    continue
                v = passed.get(cp)
                ok = isinstance(v, ast.Name) and v.id == ip
                r5.ob(ok, '%s:%s:%s' % (name, callee_name, cp))
                if not ok:
                    rep.finding(r5, f.qualname,
                                '%s(%s=%s)' % (callee_name, cp, norm(v)),
                                'param-not-passed', OPS, call.lineno,
                                'parameter %s of %s is not passed through to '
                                '%s' % (ip, name, callee_name))
        # ---- R4: refusals before the traditional call ---------------------
        iparams = [p for p in f.params if p != 'self']
        trad_params = conn.methods[trad].params
        refuse = [p for p in ('FilterQuery', 'FilterQueryLanguage',
                              'ContinueOnError', 'ReturnQueryResultClass')
                  if p in iparams and p not in trad_params and
                  not (name == 'IterQueryInstances' and p.startswith(
                      'FilterQuery'))]
        pre = []
        for s in tail:
            if any(n is tcall for n in ast.walk(s)):
                break
            pre.append(s)
        refused = set()
        for s in pre:
            if isinstance(s, ast.If) and always_exits(s.body) and \
                    any(isinstance(x, ast.Raise) and x.exc is not None and
                        'ValueError' in norm(x.exc) for x in s.body):
                atoms = s.test.values if isinstance(s.test, ast.BoolOp) and \
                    isinstance(s.test.op, ast.Or) else [s.test]
                for a in atoms:
                    t = norm(a)
                    if t.endswith(' is not None'):
                        refused.add(t[:-len(' is not None')])
        for p in refuse:
            ok = p in refused
            r4.ob(ok, '%s:refuse:%s' % (name, p),
                  {'iter': name, 'refused_in_fallback': sorted(refused)})
            if not ok:
                rep.finding(r4, f.qualname, p, 'not-refused', OPS,
                            tcall.lineno, 'the traditional fallback does '
                            'not refuse %s with ValueError before calling '
                            '%s (the parameter would be silently ignored)'
                            % (p, trad))
        # assert flag is False before fallback
        ok = any(isinstance(s, ast.Assert) and
                 eqsrc(s.test, flag + ' is False') for s in pre)
        r3.ob(ok, name + ':assert-false')
        if not ok:
            rep.finding(r3, f.qualname, 'assert %s is False' % flag,
                        'no-assert', OPS, f.node.lineno,
                        'fallback is not guarded by the flag being False')
        # ---- R6 -----------------------------------------------------------
        if trad in NEEDS_PATH_COMPLETION:
            r6.sites += 1
            ns_done = host_done = False
            ns_src = False
            for s in tail:
                for n in walk_no_nested(s):
                    if isinstance(n, ast.If) and len(n.body) == 1 and \
                            isinstance(n.body[0], ast.Assign):
                        t = norm(n.test)
                        a = norm(n.body[0])
                        if t.endswith('.namespace is None') and \
                                a == t[:-len(' is None')] + ' = namespace':
                            ns_done = True
                        if t.endswith('.host is None') and \
                                a == t[:-len(' is None')] + ' = self.host':
                            host_done = True
                    if isinstance(n, ast.Assign) and norm(n) == \
                            'namespace = self._iparam_namespace_from_' \
                            'namespace(namespace)':
                        ns_src = True
            for what, ok in (('namespace', ns_done and ns_src),
                             ('host', host_done)):
                r6.ob(ok, '%s:complete-%s' % (name, what),
                      {'iter': name, 'completes': what})
                if not ok:
                    rep.finding(r6, f.qualname, 'path.%s' % what,
                                'not-completed', OPS, tcall.lineno,
                                'fallback does not complete path.%s of the '
                                'objects returned by %s (its response '
                                'carries none)' % (what, trad))
    # flags distinct and initialised
    r2.sites += 1
    vals = list(flags.values())
    ok = len(set(vals)) == len(vals) == 7
    r2.ob(ok, 'flags-distinct', {'flags': flags})
    if not ok:
        rep.finding(r2, 'WBEMConnection', ', '.join(sorted(vals)),
                    'flags-shared', OPS, conn.node.lineno,
                    'two Iter operations share a pull flag')
    init = conn.methods['__init__']
    inits = {norm(s.targets[0]): norm(s.value)
             for s in walk_no_nested(init.node)
             if isinstance(s, ast.Assign) and len(s.targets) == 1}
    for fl in vals:
        ok = inits.get(fl) == 'use_pull_operations'
        r2.ob(ok, 'init:' + fl)
        if not ok:
            rep.finding(r2, init.qualname, fl, 'flag-init', OPS,
                        init.node.lineno, '%s is not initialised from '
                        'use_pull_operations' % fl)


def pull_switch_rule(repo, rep):
    """C15.R8: a mock server with pull operations disabled refuses *every*
    Open..., Pull... and CloseEnumeration request with
    CIM_ERR_NOT_SUPPORTED, before doing anything else.  The Iter*
    operations learn from that refusal of the Open that they must use the
    traditional operation; if one Open handler lacks the check, its Iter*
    operation takes the pull branch against a server whose Pull and Close
    are refused (partial result, then an error, and a context that stays
    open)."""
    MAINF = 'pywbem_mock/_mainprovider.py'
    r8 = rep.rule('C15.R8', 'every Open/Pull/Close handler of the mock '
                  'server checks the pull switch first')
    mp = repo.cls(MAINF, 'MainProvider')
    for n, f in sorted(mp.methods.items()):
        if not (n.startswith('Open') or n.startswith('Pull') or
                n == 'CloseEnumeration'):
            continue
        r8.sites += 1
        r8.functions.add(f.fq)
        from ..inline import Flat
        from ..cfg import first_effective
        # the first thing the handler does (assertions and bindings of
        # names / constants aside); a validation written in place - or
        # inlined from a helper - that precedes the switch raises its own
        # error first
        first = first_effective(
            Flat(f, keep=('_validate_pull_operations_enabled',)).body)
        if isinstance(first, ast.Expr) and isinstance(first.value, ast.Call):
            first = first.value
        ok = isinstance(first, ast.Call) and \
            dotted(first.func) == 'self._validate_pull_operations_enabled'
        r8.ob(ok, n, {'first_call': norm(first, 50) if first is not None
                      else None})
        if not ok:
            rep.finding(r8, f.qualname, '_validate_pull_operations_enabled',
                        'switch-not-checked', MAINF, f.node.lineno,
                        '%s does not start with '
                        'self._validate_pull_operations_enabled() (first '
                        'call: %s): with pull operations disabled this '
                        'handler still answers, unlike its siblings'
                        % (n, norm(first, 50) if first is not None
                           else 'none'))
    if r8.sites < 11:
        raise AnalysisError('C15.R8: only %d Open/Pull/Close handlers'
                            % r8.sites)
