"""C16 - accepted indications reach each callback exactly once, in order;
stop() is clean.  Necessary structural conditions only (thread ownership,
ordering); interleavings are not explored."""
import ast

from ..model import AnalysisError, walk_no_nested, dotted, norm, eqsrc
from ..cfg import CFG, always_exits
from ..escape import EscapeAnalysis
from ..resolve import Resolver

EXPLANATION = (
    "Thread ownership and ordering facts of WBEMListener, decided on the "
    "AST/CFG: (R1) the thread roots (_callback_run as target of the single "
    "CallbackThread, the request handler path do_POST -> _handle_indication, "
    "the caller of start/stop) and the self._* fields each of them reads or "
    "writes are tabulated; (R2) a field read by the callback thread may be "
    "cleared (set to None) by the stopping path only after that thread's "
    "join() - every CFG path to the clearing assignment passes the join or "
    "the `no thread exists` branch; the listener threads are shut down "
    "(shutdown, server_close, join) before their fields are cleared and "
    "stop() stops them before the delivery thread; (R3) in do_POST the "
    "success response is dominated by the normal return of "
    "_handle_indication, whose queue.Full edge leads only to an error "
    "response; _handle_indication uses a non-blocking put and re-raises "
    "queue.Full; (R4) exactly one thread is created with target "
    "_callback_run, the queue is a FIFO queue.Queue created in start(), the "
    "tuple put equals the tuple unpacked by the consumer; (R5) callbacks are "
    "iterated in registration order (add_callback only appends), each call "
    "is inside try/except Exception, and between get() and task_done() "
    "nothing in the exception catalogue can escape; (R6) every field "
    "assigned in start() is reset on the stop path. Exactly-once delivery "
    "and ordering under all interleavings is schedule exploration (a "
    "different technique family) and is not decided.")
ASSUMPTIONS = [
    "queue.Queue is FIFO and thread-safe; Thread.join() returns after the "
    "thread function ended",
    "logger calls do not raise",
]

LS = 'pywbem/_listener.py'


def self_fields(func, store=None):
    out = set()
    for n in walk_no_nested(func.node):
        if isinstance(n, ast.Attribute) and isinstance(n.value, ast.Name) and \
                n.value.id == 'self' and n.attr.startswith('_') and \
                not n.attr.startswith('__'):
            if store is None or isinstance(n.ctx, ast.Store) == store:
                out.add(n.attr)
    return out


def closure(cls, roots):
    """methods of cls reachable through self.m() calls from roots"""
    seen, work = [], list(roots)
    while work:
        f = work.pop()
        if f in seen:
            continue
        seen.append(f)
        for n in walk_no_nested(f.node):
            if isinstance(n, ast.Call):
                d = dotted(n.func)
                if d and d.startswith('self.') and d.count('.') == 1:
                    m = cls.find_method(d[5:])
                    if m is not None:
                        work.append(m)
    return seen


def delivery_thread_survives(repo, rep, rule):
    """no exception escapes from _deliver_indication_to_callbacks (other
    than through the guarded callback call): an exception there skips
    task_done() and ends the single callback thread, so that every later
    indication is acknowledged by the HTTP side but never delivered
    (C16.R5; also C17: one request must not prevent later valid
    indications from being delivered)"""
    lis = repo.cls(LS, 'WBEMListener')
    deliver = lis.methods.get('_deliver_indication_to_callbacks')
    run_cb = lis.methods.get('_callback_run')
    if deliver is None or run_cb is None:
        raise AnalysisError('WBEMListener delivery methods vanished')
    ea = EscapeAnalysis(repo, Resolver(repo))
    ea.solve([deliver, run_cb])
    leaks = [e for e in ea.summ.get(deliver.fq, {}).values()
             if e.kind != 'assert']
    rule.sites += 1
    rule.functions.add(deliver.fq)
    rule.ob(not leaks, 'deliver-escape-set',
            {'may_escape': [repr(e) for e in leaks]})
    for e in leaks:
        rep.finding(rule, e.func, e.construct, e.exc, e.file, e.line,
                    '%s can escape from _deliver_indication_to_callbacks: '
                    'task_done() is skipped and the delivery thread ends'
                    % e.exc)


def run(repo, rep, tier):
    r1 = rep.rule('C16.R1', 'thread roots and shared fields')
    r2 = rep.rule('C16.R2', 'release after join')
    r3 = rep.rule('C16.R3', 'acknowledge after enqueue')
    r4 = rep.rule('C16.R4', 'single consumer, FIFO container')
    r5 = rep.rule('C16.R5', 'per-callback isolation and order')
    r6 = rep.rule('C16.R6', 'stop/start symmetry')
    lis = repo.cls(LS, 'WBEMListener')
    hnd = repo.cls(LS, 'ListenerRequestHandler')
    per_instance_sync_state(repo, rep)
    failed_start_is_undone(repo, rep)
    delivery_before_accepting(repo, rep)

    def m(name):
        f = lis.methods.get(name)
        if f is None:
            raise AnalysisError('WBEMListener.%s vanished' % name)
        return f
    from ..inline import Flat
    start, stop = m('start'), m('stop')
    run_cb, handle = m('_callback_run'), m('_handle_indication')
    # the two phases of stop() - shutting the HTTP(S) servers down and
    # stopping the delivery - usually live in a helper each; where a helper
    # is missing (inlined, split up differently) the whole of stop() with
    # its helpers inlined is analysed in its place
    stop_all_f = Flat(stop, aliases=True)
    stop_del = lis.methods.get('_stop_indication_delivery') or stop
    stop_thr = lis.methods.get('_stop_listener_threads') or stop
    deliver = m('_deliver_indication_to_callbacks')
    addcb = m('add_callback')
    # the order rules are judged with private helpers inlined, so that it
    # does not matter whether a step is written in place or extracted
    stop_del_f = Flat(stop_del, aliases=True) if stop_del is not stop \
        else stop_all_f
    stop_thr_f = Flat(stop_thr, aliases=True) if stop_thr is not stop \
        else stop_all_f
    run_cb_f = Flat(run_cb, keep=(deliver.name,), aliases=True)
    handle_f = Flat(handle, aliases=True)

    # ---- R4 / R1 ----------------------------------------------------------
    creates = []
    start_f = Flat(start, aliases=False)
    for n in walk_no_nested(start_f.node):
        if isinstance(n, ast.Assign) and isinstance(n.value, ast.Call):
            for k in n.value.keywords:
                if k.arg == 'target' and norm(k.value) == 'self._callback_run':
                    creates.append(n)
    ok = len(creates) == 1
    r4.sites += 1
    r4.ob(ok, 'one-consumer', {'creation': [norm(c, 120) for c in creates]})
    if not ok:
        rep.finding(r4, start.qualname, 'target=self._callback_run',
                    'consumer-count', LS, start.node.lineno,
                    '%d threads are created with target _callback_run '
                    '(exactly one consumer keeps FIFO order)' % len(creates))
        return
    thread_field = norm(creates[0].targets[0])      # self._callback_thread
    if isinstance(creates[0].targets[0], ast.Name):
        # created into a local that is then stored in the field
        for n in walk_no_nested(start_f.node):
            if isinstance(n, ast.Assign) and len(n.targets) == 1 and \
                    isinstance(n.value, ast.Name) and \
                    n.value.id == thread_field and \
                    (dotted(n.targets[0]) or '').startswith('self.'):
                thread_field = norm(n.targets[0])
    qassign = [n for n in walk_no_nested(start_f.node)
               if isinstance(n, ast.Assign) and
               norm(n.targets[0]) == 'self._ind_queue' and
               not (isinstance(n.value, ast.Constant) and
                    n.value.value is None)]
    ok = len(qassign) == 1 and isinstance(qassign[0].value, ast.Call) and \
        dotted(qassign[0].value.func) == 'queue.Queue'
    r4.ob(ok, 'fifo-queue', {'queue': norm(qassign[0], 100) if qassign
                             else None})
    if not ok:
        rep.finding(r4, start.qualname, 'self._ind_queue = ...', 'queue-kind',
                    LS, start.node.lineno, 'the indication queue is not a '
                    'FIFO queue.Queue created in start()')
    # producer tuple arity = consumer unpack arity
    puts = [n for n in walk_no_nested(handle_f.node)
            if isinstance(n, ast.Call) and
            dotted(n.func) in ('self._ind_queue.put',
                               'self._ind_queue.put_nowait')]
    arity_put = None
    for n in walk_no_nested(handle_f.node):
        if isinstance(n, ast.Assign) and puts and \
                norm(n.targets[0]) == norm(puts[0].args[0]) and \
                isinstance(n.value, ast.Tuple):
            arity_put = [norm(e) for e in n.value.elts]
    unp = [n for n in walk_no_nested(run_cb_f.node)
           if isinstance(n, ast.Assign) and
           isinstance(n.targets[0], ast.Tuple)]
    arity_get = [norm(e).split('$')[-1] for e in unp[0].targets[0].elts] \
        if unp else None
    ok = arity_put is not None and arity_get is not None and \
        len(arity_put) == len(arity_get) == 3 and arity_put == arity_get
    r4.ob(ok, 'item-shape', {'put': arity_put, 'unpacked': arity_get})
    if not ok:
        rep.finding(r4, run_cb.qualname, '%s vs %s' % (arity_put, arity_get),
                    'item-shape', LS, run_cb.node.lineno,
                    'the queue item put by _handle_indication is not the '
                    'tuple the callback thread unpacks')
    roots = {'callback thread (_callback_run)': closure(lis, [run_cb]),
             'request handler threads (do_POST -> _handle_indication)':
                 closure(lis, [handle]),
             'caller thread (start/stop)': closure(lis, [start, stop])}
    table = {}
    for rn, funcs in roots.items():
        rd, wr = set(), set()
        for f in funcs:
            rd |= self_fields(f, store=False)
            wr |= self_fields(f, store=True)
        table[rn] = {'reads': sorted(rd), 'writes': sorted(wr),
                     'functions': [f.name for f in funcs]}
        r1.sites += 1
        r1.functions.update(f.fq for f in funcs)
    r1.ob(True, 'roots', table)
    cb_reads = set(table['callback thread (_callback_run)']['reads'])
    if '_ind_queue' not in cb_reads:
        raise AnalysisError('_callback_run no longer reads _ind_queue')

    # ---- R2 ---------------------------------------------------------------
    _seen_f = []
    for f in (Flat(stop, keep=(stop_del.name, stop_thr.name), aliases=True),
              stop_del_f, stop_thr_f):
        if any(f.node is g for g in _seen_f):
            continue
        _seen_f.append(f.node)
        cfg = CFG(f.node)
        joins = [s for s in cfg.stmts() if isinstance(s, ast.Expr) and
                 isinstance(s.value, ast.Call) and
                 dotted(s.value.func) == thread_field + '.join']
        # a join with a timeout returns while the thread may still run: it
        # does not establish that the thread has ended
        timed = [s for s in joins if s.value.args or s.value.keywords]
        for s in timed:
            r2.sites += 1
            r2.ob(False, '%s:%s' % (f.name, norm(s)))
            rep.finding(r2, f.qualname, norm(s), 'join-with-timeout', LS,
                        s.lineno,
                        '%s only waits for a limited time: if a callback is '
                        'still running, stop() returns with the callback '
                        'thread alive (it still reads the fields that are '
                        'cleared next, and after a prompt start() it '
                        'consumes the new queue concurrently with the new '
                        'thread: indications are delivered out of order)'
                        % norm(s))
        joins = [s for s in joins if s not in timed]
        for s in cfg.stmts():
            if isinstance(s, ast.Assign) and \
                    isinstance(s.value, ast.Constant) and \
                    s.value.value is None:
                for t in s.targets:
                    d = dotted(t)
                    if d and d.startswith('self.') and d[5:] in cb_reads \
                            and d != thread_field:
                        r2.sites += 1

                        def no_thread_edge(a, b, labs):
                            return isinstance(a, ast.If) and \
                                norm(a.test) == thread_field and \
                                labs == {False}
                        wit = cfg.path_avoiding(
                            cfg.ENTRY, s, lambda n: n in joins,
                            no_thread_edge)
                        ok = wit is None
                        r2.ob(ok, '%s:%s' % (f.name, norm(s)),
                              {'function': f.name, 'clears': d,
                               'after_join_of': thread_field, 'holds': ok})
                        if not ok:
                            rep.finding(
                                r2, f.qualname, norm(s), 'before-join', LS,
                                s.lineno,
                                '%s is read by the callback thread but is '
                                'cleared on a path that has not joined %s: '
                                'the thread fails with AttributeError and '
                                'join()/stop() re-raises it' % (d,
                                                                thread_field))
    if r2.sites == 0:
        raise AnalysisError('no clearing of callback-thread fields found on '
                            'the stop path')
    # listener threads: shutdown -> server_close -> join -> clear
    cfg = CFG(stop_thr_f.node)
    for srv, thr in (('self._http_server', 'self._http_thread'),
                     ('self._https_server', 'self._https_thread')):
        r2.sites += 1
        seq = {}
        for i, s in enumerate(cfg.stmts()):
            t = norm(s)
            for k in (srv + '.shutdown()', srv + '.server_close()',
                      thr + '.join()', srv + ' = None', thr + ' = None'):
                if t == k:
                    seq[k] = s
        order = [srv + '.shutdown()', srv + '.server_close()',
                 thr + '.join()', srv + ' = None', thr + ' = None']
        ok = all(k in seq for k in order) and all(
            cfg.dominates(seq[order[i]], seq[order[i + 1]])
            for i in range(2)) and \
            cfg.dominates(seq[thr + '.join()'], seq[srv + ' = None']) and \
            cfg.dominates(seq[thr + '.join()'], seq[thr + ' = None'])
        r2.ob(ok, 'listener-thread:' + thr, {'order': order, 'holds': ok})
        if not ok:
            rep.finding(r2, stop_thr.qualname, thr, 'shutdown-order', LS,
                        stop_thr.node.lineno,
                        'the listener thread %s is not shut down, closed and '
                        'joined before its fields are cleared' % thr)
    # request threads: server_close() joins them only with the
    # socketserver.ThreadingMixIn defaults (daemon_threads False,
    # block_on_close True); they read self._ind_queue through
    # do_POST -> _handle_indication, so they must have ended before the stop
    # path releases the queue
    mod = repo.module(LS)
    mixins = [c for c in mod.classes.values()
              if any('ThreadingMixIn' in norm(b) for b in c.node.bases)]
    if not mixins:
        raise AnalysisError('no socketserver.ThreadingMixIn server class in '
                            'the listener module (request-thread join '
                            'semantics unknown)')
    safe = {'daemon_threads': False, 'block_on_close': True}
    r2.sites += 1
    bad = []
    for n in ast.walk(mod.tree):
        tg = []
        if isinstance(n, ast.Assign):
            tg = n.targets
        elif isinstance(n, ast.AnnAssign) and n.value is not None:
            tg = [n.target]
        for t in tg:
            name = t.id if isinstance(t, ast.Name) else (
                t.attr if isinstance(t, ast.Attribute) else None)
            if name in safe and not (isinstance(n.value, ast.Constant) and
                                     n.value.value is safe[name]):
                bad.append((n, name))
    r2.ob(not bad, 'request-threads-joined',
          {'server_classes': [c.name for c in mixins],
           'requires': 'daemon_threads False and block_on_close True '
                       '(ThreadingMixIn.server_close joins request threads)',
           'overrides': [norm(n) for n, _ in bad]})
    for n, name in bad:
        rep.finding(r2, mixins[0].name, norm(n), 'request-threads-not-joined',
                    LS, n.lineno,
                    '%s: server_close() no longer waits for the request '
                    'handler threads, so stop() drains and releases the '
                    'indication queue while a request may still be in '
                    '_handle_indication - the indication is acknowledged '
                    'with a success response but never delivered, and '
                    'stop() returns with a listener thread still running'
                    % norm(n))
    # stop order, on stop() with everything inlined: no server is still
    # being shut down after the delivery has been stopped - i.e. no
    # shutdown() / server_close() is reachable from the statements that
    # end the delivery (join of the callback thread, release of the queue)
    cfg_a = CFG(stop_all_f.node)
    srv_st = [s_ for s_ in cfg_a.stmts() if isinstance(s_, ast.Expr) and
              isinstance(s_.value, ast.Call) and
              isinstance(s_.value.func, ast.Attribute) and
              s_.value.func.attr in ('shutdown', 'server_close') and
              'server' in norm(s_.value.func.value)]
    del_st = [s_ for s_ in cfg_a.stmts() if
              (isinstance(s_, ast.Expr) and isinstance(s_.value, ast.Call)
               and dotted(s_.value.func) in (thread_field + '.join',
                                             thread_field + '.stop')) or
              (isinstance(s_, ast.Assign) and
               isinstance(s_.value, ast.Constant) and
               s_.value.value is None and
               any(norm(t_) == 'self._ind_queue' for t_ in s_.targets))]
    calls = [norm(s_, 50) for s_ in srv_st + del_st]
    ok = bool(srv_st) and bool(del_st) and all(
        cfg_a.path_avoiding(d_, s_, lambda n_: False) is None
        for d_ in del_st for s_ in srv_st)
    r2.ob(ok, 'stop:order', {'stop_calls': calls})
    if not ok:
        rep.finding(r2, stop.qualname, 'stop order', 'stop-order', LS,
                    stop.node.lineno, 'stop() does not stop the listener '
                    'threads before stopping indication delivery (accepted '
                    'indications could be dropped)')
    # drain before stopping the consumer (non-immediate mode)
    cfg = CFG(stop_del_f.node)
    waits = [s for s in cfg.stmts() if isinstance(s, ast.While) and
             eqsrc(s.test, 'not self._ind_queue.empty()')]
    stops = [s for s in cfg.stmts() if norm(s) == thread_field + '.stop()']
    ok = bool(waits) and bool(stops) and all(
        cfg.path_avoiding(cfg.ENTRY, st, lambda n: n in waits,
                          lambda a, b, labs: isinstance(a, ast.If) and
                          norm(a.test) == 'self._ind_queue' and
                          labs == {False}) is None for st in stops)
    r2.ob(ok, 'drain-before-stop')
    if not ok:
        rep.finding(r2, stop_del.qualname, thread_field + '.stop()',
                    'stop-before-drain', LS, stop_del.node.lineno,
                    'the callback thread is told to stop on a path that has '
                    'not waited for the queue to be empty')

    # ---- R3 ---------------------------------------------------------------
    post = hnd.methods.get('do_POST')
    if post is None:
        raise AnalysisError('do_POST vanished')
    r3.functions.update([post.fq, handle.fq])
    cfg = CFG(post.node)
    succ = [s for s in cfg.stmts() if isinstance(s, ast.Expr) and
            isinstance(s.value, ast.Call) and
            dotted(s.value.func) == 'self.send_success_response']
    enq = [s for s in cfg.stmts() if isinstance(s, ast.Expr) and
           isinstance(s.value, ast.Call) and
           (dotted(s.value.func) or '').endswith('._handle_indication')]
    r3.sites += 1
    ok = len(succ) == 1 and len(enq) == 1 and cfg.dominates(enq[0], succ[0])
    r3.ob(ok, 'ack-after-enqueue', {'enqueue': norm(enq[0], 80) if enq
                                    else None})
    if not ok:
        rep.finding(r3, post.qualname, 'send_success_response',
                    'ack-before-enqueue', LS, post.node.lineno,
                    'the success response is not dominated by the call that '
                    'enqueues the indication')
    # queue.Full handler: error response + return, never success
    full_ok = False
    for n in walk_no_nested(post.node):
        if isinstance(n, ast.Try) and enq and any(
                x is enq[0] for b in n.body for x in ast.walk(b)):
            for h in n.handlers:
                if norm(h.type) == 'queue.Full':
                    calls = [dotted(c.func) for b in h.body
                             for c in ast.walk(b) if isinstance(c, ast.Call)]
                    # after the handler no success response is reachable
                    after = cfg.reachable(h)
                    full_ok = 'self.send_error_response' in calls and \
                        'self.send_success_response' not in calls and \
                        not any(x in after for x in succ)
    r3.ob(full_ok, 'full->error')
    if not full_ok:
        rep.finding(r3, post.qualname, 'except queue.Full', 'full-handling',
                    LS, post.node.lineno, 'a full queue does not lead to '
                    'exactly an error response')
    def non_blocking(p_):
        if p_.func.attr == 'put_nowait':
            return True
        if any(k.arg == 'block' and norm(k.value) == 'False'
               for k in p_.keywords):
            return True
        return len(p_.args) >= 2 and norm(p_.args[1]) == 'False'
    ok = bool(puts) and all(non_blocking(p_) for p_ in puts)
    r3.ob(ok, 'non-blocking-put')
    if not ok:
        rep.finding(r3, handle.qualname, 'self._ind_queue.put', 'blocking',
                    LS, handle.node.lineno, 'the put is not non-blocking')
    reraise = False
    for n in walk_no_nested(handle.node):
        if isinstance(n, ast.Try):
            for h in n.handlers:
                if norm(h.type) == 'queue.Full' and h.body and \
                        isinstance(h.body[-1], ast.Raise) and \
                        h.body[-1].exc is None:
                    reraise = True
    r3.ob(reraise, 'full-reraised')
    if not reraise:
        rep.finding(r3, handle.qualname, 'except queue.Full: ... raise',
                    'full-swallowed', LS, handle.node.lineno,
                    'queue.Full is not re-raised to the request handler: an '
                    'indication that was not queued would be acknowledged')
    # put precedes everything else that could fail after it in the try body
    # ---- R5 ---------------------------------------------------------------
    r5.functions.update([deliver.fq, run_cb.fq, addcb.fq])
    deliver_f = Flat(deliver, aliases=True)
    loops = [n for n in deliver_f.body if isinstance(n, ast.For)]
    ok = len(loops) == 1 and norm(loops[0].iter) == 'self._callbacks'
    r5.sites += 1
    r5.ob(ok, 'registration-order', {'iterates': norm(loops[0].iter)
                                     if loops else None})
    if not ok:
        rep.finding(r5, deliver.qualname, 'for callback in self._callbacks',
                    'order', LS, deliver.node.lineno, 'callbacks are not '
                    'iterated directly in registration order')
    if loops:
        lp = loops[0]
        cvar = norm(lp.target)
        call_ok = False
        for n in lp.body:
            if isinstance(n, ast.Try) and any(
                    isinstance(c, ast.Call) and norm(c.func) == cvar
                    for b in n.body for c in ast.walk(b)):
                call_ok = any(norm(h.type) in ('Exception', 'BaseException')
                              and not any(isinstance(x, ast.Raise)
                                          for b in h.body
                                          for x in ast.walk(b))
                              for h in n.handlers if h.type is not None)
        bare = [c for s in lp.body if not isinstance(s, ast.Try)
                for c in ast.walk(s) if isinstance(c, ast.Call) and
                norm(c.func) == cvar]
        ok = call_ok and not bare
        r5.ob(ok, 'callback-isolated')
        if not ok:
            rep.finding(r5, deliver.qualname, cvar + '(indication, host)',
                        'not-isolated', LS, lp.lineno,
                        'a callback call is not inside try/except Exception:'
                        ' a raising callback prevents the following '
                        'callbacks / kills the delivery thread')
    addcb_f = Flat(addcb, aliases=True)
    mut = [n for n in walk_no_nested(addcb_f.node) if isinstance(n, ast.Call)
           and isinstance(n.func, ast.Attribute) and
           norm(n.func.value) == 'self._callbacks']
    ok = mut and all(c.func.attr == 'append' for c in mut)
    r5.ob(ok, 'append-only')
    if not ok:
        rep.finding(r5, addcb.qualname, 'self._callbacks.append',
                    'not-append', LS, addcb.node.lineno,
                    'add_callback does not only append')
    # a callback is registered once: the append runs only when the callback
    # is not yet in the list by *equality* (two bound-method objects of the
    # same method are equal but not identical - an identity test registers
    # the callback twice and every indication is delivered to it twice)
    from ..cfg import stmt_facts as _sf16
    pcb = [p_ for p_ in addcb.params if p_ != 'self'][0]
    for st_, (fs_, _t) in _sf16(addcb_f.node).items():
        if not (isinstance(st_, ast.Expr) and
                isinstance(st_.value, ast.Call) and
                isinstance(st_.value.func, ast.Attribute) and
                st_.value.func.attr == 'append' and
                norm(st_.value.func.value) == 'self._callbacks'):
            continue
        r5.sites += 1
        from ..cfg import GuardWalker as _GW16
        guarded = any(
            isinstance(t_, ast.Compare) and len(t_.ops) == 1 and
            norm(t_.left) == pcb and
            norm(t_.comparators[0]) == 'self._callbacks' and
            ((isinstance(t_.ops[0], ast.NotIn) and pol_) or
             (isinstance(t_.ops[0], ast.In) and not pol_))
            for t0_, p0_ in fs_ for t_, pol_ in _GW16._atoms(t0_, p0_))
        r5.ob(guarded, 'add_callback:once')
        if not guarded:
            rep.finding(r5, addcb.qualname, norm(st_, 60), 'registered-twice',
                        LS, st_.lineno,
                        'the callback is appended without the test `%s not '
                        'in self._callbacks` (membership by equality): the '
                        'same bound method passed twice is registered twice '
                        'and receives every indication twice' % pcb)
    # nothing escapes between get and task_done
    delivery_thread_survives(repo, rep, r5)
    # consumer loop: every item taken from the queue is delivered and then
    # marked done before the next item is taken or the loop is left (on
    # the normal-flow edges of the CFG).
    ccfg = CFG(run_cb_f.node)

    def simple(n):
        return isinstance(n, ast.stmt) and not isinstance(
            n, (ast.If, ast.For, ast.While, ast.Try, ast.With))

    def has_call(n, pred):
        return simple(n) and any(isinstance(c, ast.Call) and pred(c)
                                 for c in ast.walk(n))
    gets = [n for n in ccfg.nodes if has_call(
        n, lambda c: dotted(c.func) == 'self._ind_queue.get')]
    delivers = [n for n in ccfg.nodes if has_call(
        n, lambda c: (dotted(c.func) or '').endswith(
            '._deliver_indication_to_callbacks'))]
    dones = [n for n in ccfg.nodes if has_call(
        n, lambda c: dotted(c.func) == 'self._ind_queue.task_done')]

    def no_exc(a, b, labs):
        # normal flow only: what can raise between get() and task_done()
        # is decided by the escape analysis above and by R4 (item shape)
        return labs == {'exc'}
    ok = len(gets) == 1 and bool(delivers) and bool(dones)
    if ok:
        g = gets[0]
        for tgt in (g, ccfg.EXIT):
            if ccfg.path_avoiding(g, tgt, lambda n: n in delivers,
                                  no_exc) is not None:
                ok = False      # an item can be dropped undelivered
        for d_ in delivers:
            for tgt in (g, ccfg.EXIT):
                if ccfg.path_avoiding(d_, tgt, lambda n: n in dones,
                                      no_exc) is not None:
                    ok = False  # delivered but never marked done
        # and task_done() is only called for an item that was delivered
        for t_ in dones:
            if ccfg.path_avoiding(ccfg.ENTRY, t_, lambda n: n in delivers,
                                  None) is not None:
                ok = False
    r5.ob(ok, 'get-deliver-task_done')
    if not ok:
        rep.finding(r5, run_cb.qualname, 'get / deliver / task_done',
                    'loop-shape', LS, run_cb.node.lineno, 'the consumer loop '
                    'is not get -> deliver -> task_done')
    # ---- R6 ---------------------------------------------------------------
    started = {norm(t) for n in walk_no_nested(start_f.node)
               if isinstance(n, ast.Assign) for t in n.targets
               if (dotted(t) or '').startswith('self._') and
               not (isinstance(n.value, ast.Constant) and
                    n.value.value is None)}
    cleared = set()
    for f in (stop_del_f, stop_thr_f):
        for n in walk_no_nested(f.node):
            if isinstance(n, ast.Assign) and \
                    isinstance(n.value, ast.Constant) and \
                    n.value.value is None:
                for t in n.targets:
                    cleared.add(norm(t))
    for fld in sorted(started):
        r6.sites += 1
        ok = fld in cleared
        r6.ob(ok, 'reset:' + fld, {'field': fld, 'reset_on_stop': ok})
        if not ok:
            rep.finding(r6, stop.qualname, fld, 'not-reset', LS,
                        stop.node.lineno, '%s is set by start() but not '
                        'reset on the stop path: the listener cannot be '
                        'started again cleanly' % fld)


def per_instance_sync_state(repo, rep):
    """C16.R7: the stop event of a stoppable thread (and any other
    synchronisation object) belongs to one thread object.  Created in the
    class body it is shared by every thread object of the process: after
    the first stop() every later callback thread sees 'stopped' at once,
    leaves its loop at the first idle timeout, and indications that are
    acknowledged afterwards are never delivered."""
    r7 = rep.rule('C16.R7', 'synchronisation objects are created per '
                  'instance, not in the class body')
    mod = repo.module(LS)
    SYNC = ('threading.Event', 'threading.Lock', 'threading.RLock',
            'threading.Condition', 'threading.Semaphore', 'queue.Queue',
            'Event', 'Lock', 'RLock', 'Condition', 'Queue')
    per_inst = 0
    for c in mod.classes.values():
        for st in c.node.body:
            tg = []
            if isinstance(st, ast.Assign):
                tg, val = st.targets, st.value
            elif isinstance(st, ast.AnnAssign) and st.value is not None:
                tg, val = [st.target], st.value
            else:
                continue
            r7.sites += 1
            shared = isinstance(val, ast.Call) and dotted(val.func) in SYNC
            r7.ob(not shared, '%s.%s' % (c.name, norm(tg[0])))
            if shared:
                rep.finding(r7, c.name, norm(st, 80), 'shared-sync-object',
                            LS, st.lineno,
                            '%s is created once in the class body and '
                            'shared by all %s objects: setting it for one '
                            'thread (stop) is seen by every later thread, so '
                            'a restarted listener\'s callback thread ends '
                            'at its first idle timeout and accepted '
                            'indications are never delivered' % (
                                norm(tg[0]), c.name))
        init = c.methods.get('__init__')
        if init is not None:
            for n in walk_no_nested(init.node):
                if isinstance(n, ast.Assign) and \
                        isinstance(n.value, ast.Call) and \
                        dotted(n.value.func) in SYNC and \
                        (dotted(n.targets[0]) or '').startswith('self.'):
                    per_inst += 1
    # the stop flag read by the consumer loop must exist per thread object
    r7.sites += 1
    r7.ob(per_inst >= 1, 'per-instance-event', {'created_in_init': per_inst})
    if per_inst < 1:
        rep.finding(r7, 'StoppableThread', 'stop event', 'no-instance-event',
                    LS, 1, 'no synchronisation object is created in an '
                    '__init__ of the listener module: the stop flag of the '
                    'callback thread is not per thread object')


def delivery_before_accepting(repo, rep):
    """C16.R8: start() sets up indication delivery (the queue and the
    started callback thread) before it starts a thread that accepts
    requests.  A server thread started earlier can run do_POST while
    self._ind_queue is still None: _handle_indication() then ignores the
    indication and returns normally, so the sender gets a success response
    for an indication that no callback will ever see."""
    r8 = rep.rule('C16.R8', 'the indication queue and the callback thread '
                  'exist before a request-serving thread is started')
    lis = repo.cls(LS, 'WBEMListener')
    start = lis.methods.get('start')
    if start is None:
        raise AnalysisError('WBEMListener.start vanished')
    r8.functions.add(start.fq)
    from ..inline import Flat
    cfg = CFG(Flat(start, aliases=True).node)

    def simple(n):
        return isinstance(n, ast.stmt) and not isinstance(
            n, (ast.If, ast.For, ast.While, ast.Try, ast.With))
    qdef = [n for n in cfg.nodes if simple(n) and isinstance(n, ast.Assign)
            and norm(n.targets[0]) == 'self._ind_queue' and
            not (isinstance(n.value, ast.Constant) and
                 n.value.value is None)]
    # locals / fields bound to a thread whose target serves requests, and to
    # the callback thread
    serving, consumer = set(), set()
    for n in cfg.nodes:
        if simple(n) and isinstance(n, ast.Assign) and \
                isinstance(n.value, ast.Call):
            tgt = [norm(k.value) for k in n.value.keywords
                   if k.arg == 'target']
            if tgt and 'serve_forever' in tgt[0]:
                serving.add(norm(n.targets[0]))
            elif tgt and tgt[0] == 'self._callback_run':
                consumer.add(norm(n.targets[0]))
    starts = [n for n in cfg.nodes if simple(n) and isinstance(n, ast.Expr)
              and isinstance(n.value, ast.Call) and
              isinstance(n.value.func, ast.Attribute) and
              n.value.func.attr == 'start']
    srv_starts = [n for n in starts if norm(n.value.func.value) in serving]
    cb_starts = [n for n in starts if norm(n.value.func.value) in consumer]
    if not qdef or not srv_starts or not cb_starts:
        raise AnalysisError('start(): queue creation (%d), server thread '
                            'starts (%d) or callback thread start (%d) not '
                            'found' % (len(qdef), len(srv_starts),
                                       len(cb_starts)))
    for st in srv_starts:
        r8.sites += 1
        ok = any(cfg.dominates(q, st) for q in qdef) and \
            any(cfg.dominates(c, st) for c in cb_starts)
        r8.ob(ok, norm(st, 50), {'queue': norm(qdef[0], 50)})
        if not ok:
            rep.finding(r8, start.qualname, norm(st, 60),
                        'accepting-before-delivery', LS, st.lineno,
                        'this request-serving thread is started on a path '
                        'on which the indication queue has not been created '
                        '/ the callback thread has not been started: a '
                        'request handled in that window is acknowledged '
                        'with a success response and silently dropped')


def failed_start_is_undone(repo, rep):
    """C16.R9: start() acquires its resources one after the other - queue,
    callback thread, HTTP server and thread, HTTPS server and thread - and
    any of the later steps can fail (port in use, bad certificate).  What
    the earlier steps set up must then be taken down again: an HTTP server
    thread that keeps serving after start() raised belongs to a listener
    whose queue is gone; it acknowledges indications with a success
    response and drops them (_handle_indication returns when there is no
    queue), and its port stays bound.  So the cleanup handler around the
    acquisition steps resets (with the stop helpers inlined) every field of
    the listener that start() sets to something other than None."""
    from ..inline import Flat
    r9 = rep.rule('C16.R9', 'a start() that fails takes down everything it '
                  'had started')
    lis = repo.cls(LS, 'WBEMListener')
    start = lis.methods.get('start')
    if start is None:
        raise AnalysisError('WBEMListener.start vanished')
    r9.functions.add(start.fq)
    sets = {}
    for a in walk_no_nested(start.node):
        if isinstance(a, ast.Assign):
            for t in a.targets:
                if isinstance(t, ast.Attribute) and \
                        isinstance(t.value, ast.Name) and \
                        t.value.id == 'self' and not (
                            isinstance(a.value, ast.Constant) and
                            a.value.value is None):
                    sets.setdefault(t.attr, a)
    if len(sets) < 4:
        raise AnalysisError('C16.R9: start() sets only %d fields' % len(sets))
    flat = Flat(start)
    cleanup = []
    for st in flat.body:
        if isinstance(st, ast.Try):
            for h in st.handlers:
                names = []
                if h.type is None:
                    names = ['BaseException']
                else:
                    ts = h.type.elts if isinstance(h.type, ast.Tuple) \
                        else [h.type]
                    names = [(dotted(t) or '').split('.')[-1] for t in ts]
                # (the handler ends by raising again: bare, the caught
                # exception itself, or one built from it)
                if set(names) & {'Exception', 'BaseException'} and any(
                        isinstance(x, ast.Raise) for x in h.body):
                    cleanup.append(h)
    r9.sites += 1
    if not cleanup:
        r9.ob(False, 'cleanup-handler')
        rep.finding(r9, start.qualname, 'try: ... except Exception: ... raise',
                    'no-cleanup', LS, start.node.lineno,
                    'start() has no handler that takes down what it had '
                    'already started when a later step fails')
        return
    resets = set()
    for h in cleanup:
        for a in ast.walk(h):
            if isinstance(a, ast.Assign) and \
                    isinstance(a.value, ast.Constant) and \
                    a.value.value is None:
                for t in a.targets:
                    if isinstance(t, ast.Attribute) and \
                            isinstance(t.value, ast.Name) and \
                            t.value.id == 'self':
                        resets.add(t.attr)
    for fld, a in sorted(sets.items()):
        r9.sites += 1
        ok = fld in resets
        r9.ob(ok, 'start:undo:' + fld, {'field': fld})
        if not ok:
            rep.finding(r9, start.qualname, 'self.%s' % fld,
                        'not-undone-on-failure', LS, a.lineno,
                        'start() sets self.%s, and the handler that cleans '
                        'up after a failed later step does not take it down '
                        '(no `self.%s = None` on the cleanup path, helpers '
                        'inlined): after start() raised, that part of the '
                        'listener keeps running without the rest' %
                        (fld, fld))
