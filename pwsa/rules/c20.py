"""C20 - ValueMapping implements the DSP0004 ValueMap/Values semantics.
Thin: error discipline, regex-guarded integer notations, recursion measure,
mirror-image range resolution."""
import ast

from ..model import AnalysisError, walk_no_nested, dotted, norm, eqsrc
from ..escape import EscapeAnalysis
from ..guards import conv_guard_factory
from ..resolve import Resolver

EXPLANATION = (
    "Thin structural check (stated as such): (R1) interprocedural "
    "exception-escape analysis of the ValueMapping entry points: every "
    "explicit raise, int()/float() conversion and use of a "
    "possibly-None regex match that can propagate out must be ModelError, "
    "ValueError, TypeError, the documented KeyError for a missing element, "
    "or a pywbem.Error from the connection; (R2) the four int(x, base) "
    "conversions of _integerValue_to_int are each dominated by a successful "
    "match of a module regex whose language (alphabet from the regex AST, "
    "end anchoring, generated samples) lies inside the domain of that "
    "conversion; (R3) a self-recursive function must not call itself with "
    "both i-1 and i+1 for the same parameter (no decreasing measure: "
    "adjacent open ranges recurse forever); (R4) the open-low and open-high "
    "branches of _values_tuple are mirror images (first/last index, "
    "minvalue/maxvalue, neighbour's hi+1 / lo-1). Does not decide which "
    "Values string claims which integer.")
ASSUMPTIONS = [
    "conn.GetClass raises only pywbem.Error subclasses (C02 for the client)",
    "IndexError/arithmetic are outside the catalogue of raise sites",
    "assert statements on this path are type invariants of internal values "
    "(exception constructors, _element_str), not data-dependent",
]

VM = 'pywbem/_valuemapping.py'
UTL = 'pywbem/_utils.py'
ALLOWED = ('ModelError', 'ValueError', 'TypeError', 'Error')


def run(repo, rep, tier):
    r1 = rep.rule('C20.R1', 'only documented exceptions escape '
                  'ValueMapping')
    r2 = rep.rule('C20.R2', 'integer notations are regex-guarded')
    r3 = rep.rule('C20.R3', 'recursion has a measure')
    r4 = rep.rule('C20.R4', 'open-range resolution branches are mirror '
                  'images')
    cls = repo.cls(VM, 'ValueMapping')
    log = []
    ea = EscapeAnalysis(repo, Resolver(repo),
                        conv_guard=conv_guard_factory(repo, log))
    entry_names = ['for_property', 'for_method', 'for_parameter',
                   '_create_for_element', '_values_tuple', '_to_int',
                   'tovalues', '_tovalues_single', 'tobinary', 'items']
    entries = []
    for n in entry_names:
        f = cls.methods.get(n)
        if f is None:
            raise AnalysisError('ValueMapping.%s vanished' % n)
        entries.append(f)
    ea.solve(entries)
    seen = set()
    for f in entries:
        r1.sites += 1
        r1.functions.add(f.fq)
        for e in ea.summ.get(f.fq, {}).values():
            if e.kind == 'assert':
                # type/invariant assertions on internal values (exception
                # constructors, _element_str): not data-dependent
                continue
            ok = any(ea.h.is_sub(e.exc, a) for a in ALLOWED)
            if e.exc == 'KeyError' and e.kind == 'raise' and \
                    e.func.startswith('ValueMapping.for_'):
                ok = True           # documented: element does not exist
            r1.ob(ok, '%s|%s|%s' % (e.func, e.construct, e.exc),
                  {'entry': f.qualname, 'may_raise': e.exc,
                   'origin': '%s: %s' % (e.func, e.construct)})
            if not ok and e.key not in seen:
                seen.add(e.key)
                rep.finding(r1, e.func, e.construct, e.exc, e.file, e.line,
                            '%s can escape from ValueMapping.%s (documented: '
                            'ModelError, ValueError, TypeError)'
                            % (e.exc, f.name),
                            path=[f.qualname] + list(e.chain) + [e.func])
    r1.notes.append('functions analysed: %d; calls resolved/builtin/stdlib/'
                    'unresolved: %s' % (len(ea.analysed), ea.call_stats))
    # ---- R2 ---------------------------------------------------------------
    iv = repo.func(UTL, '_integerValue_to_int')
    rv = repo.func(UTL, '_realValue_to_float')
    ea2 = EscapeAnalysis(repo, ea.res, conv_guard=conv_guard_factory(repo,
                                                                     log))
    ea2.solve([iv, rv])
    for f in (iv, rv):
        r2.functions.add(f.fq)
        convs = [n for n in walk_no_nested(f.node) if isinstance(n, ast.Call)
                 and dotted(n.func) in ('int', 'float')]
        r2.sites += len(convs)
        leaks = {e.construct: e for e in ea2.summ.get(f.fq, {}).values()
                 if e.kind == 'conv'}
        for c in convs:
            ok = norm(c) not in leaks
            why = [x for x in log if x['conversion'] == norm(c) and
                   x['function'] == f.qualname]
            r2.ob(ok, '%s|%s' % (f.name, norm(c)),
                  {'conversion': norm(c),
                   'guard': why[-1] if why else 'none found'})
            if not ok:
                rep.finding(r2, f.qualname, norm(c), 'unguarded-conversion',
                            UTL, c.lineno,
                            'conversion is not covered by a regex whose '
                            'language lies in its domain: %s'
                            % (why[-1]['why'] if why else
                               'no dominating successful match'))
    if r2.sites < 5:
        raise AnalysisError('expected 5 guarded conversions in _utils, '
                            'found %d' % r2.sites)
    _notation_rule(repo, rep)
    factories_agree(repo, rep)
    keys_as_stored(repo, rep)
    readers_answer_from_tables(repo, rep)
    table_searches_are_exhaustive(repo, rep)
    # ---- R3 ---------------------------------------------------------------
    mod = repo.module(VM)
    for f in mod.all_funcs():
        params = f.params
        rec = []
        for n in walk_no_nested(f.node):
            if isinstance(n, ast.Call) and dotted(n.func) in (
                    'self.' + f.name, 'cls.' + f.name, f.name):
                rec.append(n)
        if not rec:
            continue
        r3.sites += 1
        r3.functions.add(f.fq)
        plist = [p for p in params if p not in ('self', 'cls')]
        for idx, p in enumerate(plist):
            ups = [c for c in rec if idx < len(c.args) and
                   isinstance(c.args[idx], ast.BinOp) and
                   isinstance(c.args[idx].op, ast.Add) and
                   norm(c.args[idx].left) == p]
            downs = [c for c in rec if idx < len(c.args) and
                     isinstance(c.args[idx], ast.BinOp) and
                     isinstance(c.args[idx].op, ast.Sub) and
                     norm(c.args[idx].left) == p]
            ok = not (ups and downs)
            r3.ob(ok, '%s|%s' % (f.qualname, p),
                  {'function': f.qualname, 'parameter': p,
                   'recursive_calls': [norm(c, 80) for c in rec]})
            if not ok:
                rep.finding(r3, f.qualname, '%s(%s - 1 ...) and %s(%s + 1 '
                            '...)' % (f.name, p, f.name, p), 'no-measure',
                            VM, ups[0].lineno,
                            'the function recurses with both %s-1 and %s+1: '
                            'no decreasing measure, e.g. ValueMap '
                            '{"1..", "..5"} recurses until RecursionError'
                            % (p, p))
    # ---- R4 ---------------------------------------------------------------
    vt = cls.methods['_values_tuple']
    r4.functions.add(vt.fq)
    branches = {}
    for n in walk_no_nested(vt.node):
        if isinstance(n, ast.If) and isinstance(n.test, ast.Compare) and \
                norm(n.test) in ("lo == ''", "hi == ''"):
            branches[norm(n.test)[:2]] = n
    if set(branches) != {'lo', 'hi'}:
        raise AnalysisError('_values_tuple: open-end branches not found')
    spec = {
        'lo': {'edge': 'i == 0', 'limit': 'cimtype.minvalue',
               'rec': 'i - 1', 'pick': 1, 'adj': ast.Add},
        'hi': {'edge': 'i == len(valuemap_list) - 1',
               'limit': 'cimtype.maxvalue', 'rec': 'i + 1', 'pick': 0,
               'adj': ast.Sub},
    }
    for which, br in branches.items():
        r4.sites += 1
        sp = spec[which]
        inner = [s for s in br.body if isinstance(s, ast.If)]
        ok = len(inner) == 1 and eqsrc(inner[0].test, sp['edge'])
        detail = {'branch': which, 'edge_test': norm(inner[0].test)
                  if inner else None}
        if ok:
            e = inner[0]
            lim = [s for s in e.body if isinstance(s, ast.Assign) and
                   norm(s.targets[0]) == which]
            ok = len(lim) == 1 and norm(lim[0].value) == sp['limit']
            detail['limit'] = norm(lim[0].value) if lim else None
            recs = [s for s in e.orelse if isinstance(s, ast.Assign) and
                    isinstance(s.value, ast.Call) and
                    dotted(s.value.func) == 'self._values_tuple']
            if ok and len(recs) == 1:
                rc = recs[0]
                ok = norm(rc.value.args[0]) == sp['rec'] and \
                    isinstance(rc.targets[0], ast.Tuple) and \
                    len(rc.targets[0].elts) == 3
                if ok:
                    picked = rc.targets[0].elts[sp['pick']]
                    others = [x for i, x in enumerate(rc.targets[0].elts)
                              if i != sp['pick']]
                    ok = isinstance(picked, ast.Name) and \
                        picked.id != '_' and all(norm(x) == '_'
                                                 for x in others)
                    adj = [s for s in e.orelse if isinstance(s, ast.Assign)
                           and norm(s.targets[0]) == which]
                    ok = ok and len(adj) == 1 and \
                        isinstance(adj[0].value, ast.BinOp) and \
                        isinstance(adj[0].value.op, sp['adj']) and \
                        norm(adj[0].value.left) == picked.id and \
                        norm(adj[0].value.right) == '1'
                    detail['neighbour'] = norm(rc, 100)
                    detail['adjust'] = norm(adj[0]) if adj else None
            else:
                ok = False
        r4.ob(ok, '_values_tuple:' + which, detail)
        if not ok:
            rep.finding(r4, vt.qualname, "%s == ''" % which, 'mirror', VM,
                        br.lineno, 'the open-%s branch is not the mirror '
                        'image of the other one (edge test %s -> %s, '
                        'neighbour %s, adjust by 1)'
                        % (which, sp['edge'], sp['limit'], sp['rec']))
    _r5_sizes(repo, rep, cls)
    _r6_tables(repo, rep, cls)
    _r7_sentinels(repo, rep, cls)


# ---------------------------------------------------------------------------
# R5: symbolic list lengths through the Values / ValueMap reconciliation
# ---------------------------------------------------------------------------
class _Lin(dict):
    """linear form over symbols: {symbol: coefficient, '1': constant}"""

    def add(self, other, k=1):
        r = _Lin(self)
        for s, c in other.items():
            r[s] = r.get(s, 0) + k * c
            if r[s] == 0:
                del r[s]
        return r

    def show(self):
        if not self:
            return '0'
        out = []
        for s in sorted(self):
            c = self[s]
            t = str(c) if s == '1' else ('%s' % s if c == 1 else
                                          '%d*%s' % (c, s))
            out.append(t)
        return ' + '.join(out).replace('+ -', '- ')


def _r5_sizes(repo, rep, cls):
    r5 = rep.rule('C20.R5', 'Values / ValueMap size reconciliation makes the '
                  'two lists equally long')
    f = cls.methods['_create_for_element']
    r5.functions.add(f.fq)
    from ..inline import Flat
    body = Flat(f).body        # private helpers inlined
    # the consuming loop: for i, x in enumerate(A): ... B[i]
    loop = None
    for st in body:
        if isinstance(st, ast.For) and isinstance(st.iter, ast.Call) and \
                dotted(st.iter.func) == 'enumerate' and \
                isinstance(st.target, ast.Tuple) and \
                isinstance(st.target.elts[0], ast.Name):
            idx = st.target.elts[0].id
            subs = {norm(n.value) for n in ast.walk(st)
                    if isinstance(n, ast.Subscript) and
                    isinstance(n.slice, ast.Name) and n.slice.id == idx}
            if subs:
                loop = (st, norm(st.iter.args[0]), sorted(subs))
                break
    if loop is None:
        raise AnalysisError('_create_for_element: the loop that indexes '
                            'Values by the ValueMap position vanished')
    loop_st, driver, indexed = loop
    lists = [driver] + indexed
    length = {}          # list name -> _Lin
    sizevar = {}         # name -> _Lin (a frozen len() reading)

    def ev(e, cond):
        """_Lin of an integer expression, or None"""
        if isinstance(e, ast.Constant) and isinstance(e.value, int):
            return _Lin({'1': e.value}) if e.value else _Lin()
        if isinstance(e, ast.Name) and e.id in sizevar:
            return sizevar[e.id]
        if isinstance(e, ast.Call) and dotted(e.func) == 'len' and e.args:
            a = e.args[0]
            if norm(a) in length:
                return length[norm(a)]
            ln = seqlen(a, cond)
            return ln
        if isinstance(e, ast.BinOp) and isinstance(e.op, (ast.Add, ast.Sub)):
            le, ri = ev(e.left, cond), ev(e.right, cond)
            if le is None or ri is None:
                return None
            return le.add(ri, 1 if isinstance(e.op, ast.Add) else -1)
        return None

    def nonneg(d, cond):
        """d >= 0 provable?  every symbol is a list length (>= 0); the
        branch condition contributes lhs - rhs >= 1"""
        if all(c >= 0 for c in d.values()):
            return True
        if cond is None:
            return False
        gap = cond[0].add(cond[1], -1)       # >= 1
        for k in (1, 2, 3):
            rest = d.add(gap, -k)
            if all(c >= 0 for s_, c in rest.items() if s_ != '1') and \
                    rest.get('1', 0) >= -k:
                return True
        return False

    def seqlen(e, cond):
        """_Lin length of a list-valued expression, or None"""
        if norm(e) in length:
            return length[norm(e)]
        if isinstance(e, ast.Subscript) and isinstance(e.slice, ast.Slice) \
                and e.slice.step is None:
            base = seqlen(e.value, cond)
            if base is None:
                return None
            lo, hi = e.slice.lower, e.slice.upper
            if lo is not None and hi is None:
                k = ev(lo, cond)
                if k is None:
                    return None
                d = base.add(k, -1)
                return d if nonneg(d, cond) else None
            if lo is None and hi is not None:
                k = ev(hi, cond)
                if k is None:
                    return None
                return k if nonneg(base.add(k, -1), cond) else None
            return None
        if isinstance(e, ast.BinOp) and isinstance(e.op, ast.Mult):
            for lst, n in ((e.left, e.right), (e.right, e.left)):
                if isinstance(lst, ast.List) and len(lst.elts) == 1:
                    return ev(n, cond)
        if isinstance(e, ast.List):
            return _Lin({'1': len(e.elts)}) if e.elts else _Lin()
        if isinstance(e, ast.Call) and dotted(e.func) == 'list' and \
                len(e.args) == 1:
            return seqlen(e.args[0], cond)
        return None

    undecided = []
    local = {}

    def step(st, cond):
        """interpret one statement; return False when the path ends"""
        if isinstance(st, ast.Raise):
            return False
        if isinstance(st, ast.Assign) and len(st.targets) == 1 and \
                isinstance(st.targets[0], ast.Name):
            t = st.targets[0].id
            v = ev(st.value, cond) if not isinstance(
                st.value, (ast.Subscript, ast.List, ast.BinOp)) else None
            if isinstance(st.value, ast.Call) and \
                    dotted(st.value.func) == 'len':
                v = ev(st.value, cond)
                if v is not None:
                    sizevar[t] = v
                return True
            ln = seqlen(st.value, cond)
            if ln is not None:
                length[t] = ln
            elif t in lists and cond is None:
                # initial definition: a fresh symbol for its length
                length[t] = _Lin({'|%s|' % t: 1})
            elif t in length:
                undecided.append(norm(st))
                del length[t]
            return True
        if isinstance(st, ast.Expr) and isinstance(st.value, ast.Call) and \
                isinstance(st.value.func, ast.Attribute):
            recv = norm(st.value.func.value)
            if recv in length:
                m = st.value.func.attr
                a = st.value.args
                if m == 'extend' and a:
                    n = seqlen(a[0], cond)
                    if n is not None:
                        length[recv] = length[recv].add(n)
                        return True
                if m == 'append':
                    length[recv] = length[recv].add(_Lin({'1': 1}))
                    return True
                undecided.append(norm(st))
                del length[recv]
            return True
        if isinstance(st, ast.AugAssign) and norm(st.target) in length and \
                isinstance(st.op, ast.Add):
            n = seqlen(st.value, cond)
            if n is None:
                undecided.append(norm(st))
                del length[norm(st.target)]
            else:
                length[norm(st.target)] = length[norm(st.target)].add(n)
            return True
        if isinstance(st, ast.Delete):
            for t in st.targets:
                if isinstance(t, ast.Subscript) and norm(t.value) in length:
                    recv = norm(t.value)
                    sl = t.slice
                    k = None
                    if isinstance(sl, ast.Slice) and sl.upper is None and \
                            sl.step is None and sl.lower is not None:
                        k = ev(sl.lower, cond)
                    if k is None:
                        undecided.append(norm(st))
                        del length[recv]
                    else:
                        # del x[k:] leaves min(k, len(x)) items
                        length[recv] = k if nonneg(
                            length[recv].add(k, -1), cond) else length[recv]
                        local['del'] = (st, k)
            return True
        if isinstance(st, ast.If):
            # nested if inside a reconciliation branch: raise-only bodies end
            # the path, anything else is interpreted on the fall-through
            alive = True
            for s in st.body:
                if not step(s, cond):
                    alive = False
                    break
            if alive and st.body:
                pass
            for s in st.orelse:
                step(s, cond)
            return True
        return True

    branches = 0
    # an if / elif chain is a sequence of exclusive branches
    flat_body = []
    for st in body:
        flat_body.append(st)
        cur = st
        while isinstance(cur, ast.If) and len(cur.orelse) == 1 and \
                isinstance(cur.orelse[0], ast.If):
            cur = cur.orelse[0]
            flat_body.append(cur)
    for st in flat_body:
        if st is loop_st:
            break
        if isinstance(st, ast.If) and isinstance(st.test, ast.Compare) and \
                len(st.test.ops) == 1 and \
                isinstance(st.test.ops[0], (ast.Gt, ast.Lt)) and \
                all(l in length for l in lists):
            a = ev(st.test.left, None)
            b = ev(st.test.comparators[0], None)
            if a is None or b is None:
                step(st, None)
                continue
            cond = (a, b) if isinstance(st.test.ops[0], ast.Gt) else (b, a)
            saved = {k: _Lin(v) for k, v in length.items()}
            local.clear()
            alive = True
            for s in st.body:
                if not step(s, cond):
                    alive = False
                    break
            branches += 1
            r5.sites += 1
            if alive:
                for b_ in indexed:
                    if b_ not in length or driver not in length:
                        r5.undecided.append(
                            '%s: length of %s not tracked through %s'
                            % (norm(st.test), b_, undecided[-1:] or '?'))
                        continue
                    d = length[b_].add(length[driver], -1)
                    ok = nonneg(d, cond) and nonneg(
                        _Lin().add(d, -1), cond)
                    r5.ob(ok, norm(st.test),
                          {'branch': norm(st.test),
                           'len(%s)' % b_: length[b_].show(),
                           'len(%s)' % driver: length[driver].show()})
                    if not ok:
                        site = local.get('del')
                        rep.finding(
                            r5, f.qualname,
                            norm(site[0]) if site else norm(st.test),
                            'length-mismatch', VM,
                            (site[0] if site else st).lineno,
                            'on the branch %s the list %s ends with %s items '
                            'but %s has %s: the loop indexes %s by the '
                            'position in %s (IndexError / wrong pairing '
                            'unless the two happen to coincide)'
                            % (norm(st.test), b_, length[b_].show(), driver,
                               length[driver].show(), b_, driver))
            # the branch is exclusive with the others and ends reconciled (or
            # raised): continue from the state before it, with the lists
            # equal on the fall-through by the obligation just checked
            length.clear()
            length.update(saved)
        else:
            step(st, None)
    if branches < 2:
        raise AnalysisError('_create_for_element: expected the two size '
                            'reconciliation branches (ValueMap longer / '
                            'Values longer), found %d' % branches)
    r5.notes.append('lists: %s indexed by the position in %s; lengths are '
                    'linear forms over the two initial sizes'
                    % (indexed, driver))


# ---------------------------------------------------------------------------
# R6: forward and backward tables are written in pairs and all consulted
# ---------------------------------------------------------------------------
def _r6_tables(repo, rep, cls):
    r6 = rep.rule('C20.R6', 'forward (binary->Values) and backward tables are '
                  'written in pairs; the reader consults single values, then '
                  'closed ranges, then the unclaimed marker')
    f = cls.methods['_create_for_element']
    r6.functions.add(f.fq)
    fwd = ('_b2v_single_dict', '_b2v_range_tuple_list', '_b2v_unclaimed')
    bwd = '_v2b_dict'

    # locals that stand for a table: `v2b = vm._v2b_dict`
    alias = {}
    for n in walk_no_nested(f.node):
        if isinstance(n, ast.Assign) and len(n.targets) == 1 and \
                isinstance(n.targets[0], ast.Name) and \
                isinstance(n.value, ast.Attribute) and \
                n.value.attr in fwd + (bwd,):
            alias[n.targets[0].id] = n.value.attr

    def table_of(x):
        if isinstance(x, ast.Attribute) and x.attr in fwd + (bwd,):
            return x.attr
        if isinstance(x, ast.Name) and x.id in alias:
            return alias[x.id]
        return None

    def writes(stmts):
        w = []
        for st in stmts:
            for n in ast.walk(st):
                if isinstance(n, ast.Assign):
                    for t in n.targets:
                        base = t.value if isinstance(t, ast.Subscript) else t
                        if isinstance(base, ast.Name) and \
                                not isinstance(t, ast.Subscript):
                            continue        # the alias definition itself
                        if table_of(base):
                            w.append((table_of(base), n))
                elif isinstance(n, ast.Call) and \
                        isinstance(n.func, ast.Attribute) and \
                        n.func.attr == 'append' and \
                        table_of(n.func.value) in fwd:
                    w.append((table_of(n.func.value), n))
        return w

    loop = [st for st in f.body if isinstance(st, ast.For)]
    if not loop:
        raise AnalysisError('_create_for_element: table-building loop '
                            'vanished')
    # every way through one iteration of the loop body
    from ..paths import return_paths, _Block
    lps = return_paths(_Block(loop[-1].body, f), max_paths=64, inline=False)
    if not lps:
        raise AnalysisError('_create_for_element: paths through the '
                            'table-building loop not enumerable')
    acc = [[e for e in p_.effects if not isinstance(e, ast.If)]
           for p_ in lps]
    seenf = set()
    for leaf in acc:
        w = writes(leaf)
        fw = [x for x in w if x[0] in fwd]
        bw = [x for x in w if x[0] == bwd]
        if not w:
            continue
        r6.sites += 1
        ok = len(fw) == 1 and len(bw) == 1
        if ok:
            seenf.add(fw[0][0])
            # same Values string on both sides
            fnode, bnode = fw[0][1], bw[0][1]
            key = norm(bnode.targets[0].slice) if isinstance(
                bnode.targets[0], ast.Subscript) else None
            if fw[0][0] == '_b2v_single_dict':
                fval = norm(fnode.value)
                ok = key == fval and \
                    norm(fnode.targets[0].slice) == norm(bnode.value)
            elif fw[0][0] == '_b2v_unclaimed':
                ok = key == norm(fnode.value) and \
                    isinstance(bnode.value, ast.Constant) and \
                    bnode.value.value is None
            else:
                tup = fnode.args[0] if isinstance(fnode, ast.Call) else None
                ok = isinstance(tup, ast.Tuple) and len(tup.elts) == 3 and \
                    norm(tup.elts[2]) == key and \
                    isinstance(bnode.value, ast.Tuple) and \
                    [norm(x) for x in tup.elts[:2]] == \
                    [norm(x) for x in bnode.value.elts]
        r6.ob(ok, 'leaf:%s' % (fw[0][0] if fw else '?'),
              {'forward': [norm(x[1], 80) for x in fw],
               'backward': [norm(x[1], 80) for x in bw]})
        if not ok:
            n0 = (fw or bw)[0][1]
            rep.finding(r6, f.qualname, norm(n0, 80), 'unpaired-table-write',
                        VM, n0.lineno,
                        'a ValueMap entry is entered into the forward table '
                        '%s and the backward table %s inconsistently (each '
                        'entry needs exactly one write to each, with the same '
                        'Values string and the same binary value/range)'
                        % ([x[0] for x in fw], [x[0] for x in bw]))
    if seenf != set(fwd):
        raise AnalysisError('_create_for_element: not all three forward '
                            'tables are written in the loop: %s'
                            % sorted(seenf))
    # reader
    g = cls.methods['_tovalues_single']
    r6.functions.add(g.fq)
    order = []
    for st in g.body:
        for n in ast.walk(st):
            if isinstance(n, ast.Attribute) and n.attr in fwd and \
                    n.attr not in order:
                order.append(n.attr)
    r6.sites += 1
    ok = order == list(fwd)
    r6.ob(ok, 'reader-order', {'reader consults': order})
    if not ok:
        rep.finding(r6, g.qualname, ' -> '.join(order), 'reader-order', VM,
                    g.node.lineno,
                    'the lookup must try single values, then ranges, then '
                    'the unclaimed marker, and must consult all three '
                    'tables the builder fills; found: %s' % order)
    # closed range test lo <= v <= hi on the tuple's first two items
    r6.sites += 1
    found = False
    for n in ast.walk(g.node):
        if isinstance(n, ast.For) and \
                norm(n.iter).endswith('_b2v_range_tuple_list'):
            names = None
            for s in n.body:
                if isinstance(s, ast.Assign) and \
                        isinstance(s.targets[0], ast.Tuple) and \
                        len(s.targets[0].elts) == 3:
                    names = [norm(x) for x in s.targets[0].elts]
            if isinstance(n.target, ast.Tuple) and len(n.target.elts) == 3:
                names = [norm(x) for x in n.target.elts]
            if not names:
                continue
            val = g.params[1] if len(g.params) > 1 else None
            from ..paths import return_paths, _Block
            lpaths = return_paths(_Block(n.body, g), max_paths=64,
                                  inline=False) or []
            for p_ in lpaths:
                if not isinstance(p_.ret_stmt, ast.Return) or \
                        norm(p_.resolve(p_.value)) != names[2]:
                    continue
                found = True
                rels = _order_relations(p_.facts)
                need = {(names[0], '<=', val), (val, '<=', names[1])}
                strict = {(a_, '<', b_) for a_, _o, b_ in need}
                ok = need <= rels and not (strict & rels)
                shown = ' and '.join(sorted('%s %s %s' % r_ for r_ in rels
                                            if val in (r_[0], r_[2])))
                r6.ob(ok, 'range-test', {'range test': shown})
                if not ok:
                    c = next((e for e, _pl in p_.facts
                              if isinstance(e, ast.Compare)), p_.ret_stmt)
                    rep.finding(
                        r6, g.qualname, norm(c), 'range-test', VM,
                        c.lineno, 'ranges built by _values_tuple are '
                        'closed on both ends (lo..hi inclusive; the '
                        'neighbour of an open range is hi+1 / lo-1): the '
                        'membership test must be %s <= value <= %s; the '
                        'Values string is returned when %s'
                        % (names[0], names[1], shown or 'nothing is tested'))
    if not found:
        r6.undecided.append('range membership test not in the recognised '
                            'form (for ... in _b2v_range_tuple_list with a '
                            'comparison)')


def _r7_sentinels(repo, rep, cls):
    """C20.R7: an attribute whose absent state is None and whose present
    state is an arbitrary Values string (which may be '') is tested with
    `is None` / `is not None`, never by truthiness."""
    r7 = rep.rule('C20.R7', 'None-sentinel attributes holding Values strings '
                  'are tested with `is None`, not by truthiness')
    build = cls.methods['_create_for_element']
    none_init, str_set = set(), set()
    for n in walk_no_nested(build.node):
        if isinstance(n, ast.Assign) and len(n.targets) == 1 and \
                isinstance(n.targets[0], ast.Attribute):
            a = n.targets[0].attr
            if isinstance(n.value, ast.Constant) and n.value.value is None:
                none_init.add(a)
            elif isinstance(n.value, ast.Name):
                str_set.add(a)
    sent = none_init & str_set
    if not sent:
        raise AnalysisError('_create_for_element: no None-sentinel attribute '
                            'found (expected _b2v_unclaimed)')

    def truthiness_uses(test, out):
        """attribute nodes used for their truth value in a condition"""
        if isinstance(test, ast.BoolOp):
            for v in test.values:
                truthiness_uses(v, out)
        elif isinstance(test, ast.UnaryOp) and isinstance(test.op, ast.Not):
            truthiness_uses(test.operand, out)
        elif isinstance(test, ast.Attribute):
            out.append(test)
    for m in cls.methods.values():
        for n in walk_no_nested(m.node):
            tests = []
            if isinstance(n, (ast.If, ast.While, ast.IfExp)):
                tests.append(n.test)
            elif isinstance(n, ast.BoolOp):
                tests.append(n)
            elif isinstance(n, ast.Assert):
                tests.append(n.test)
            for t in tests:
                uses = []
                truthiness_uses(t, uses)
                for u in uses:
                    if u.attr in sent and norm(u.value) in ('self', 'vm'):
                        rep.finding(r7, m.qualname, norm(t, 60),
                                    'truthiness-of-sentinel', VM, u.lineno,
                                    '%s is None when the ValueMap has no '
                                    '".." entry and a Values string '
                                    'otherwise; that string may be empty '
                                    '(values_default=\'\'), so a truthiness '
                                    'test treats an existing entry as absent'
                                    % norm(u))
        for n in walk_no_nested(m.node):
            if isinstance(n, ast.Compare) and \
                    isinstance(n.left, ast.Attribute) and \
                    n.left.attr in sent and len(n.ops) == 1 and \
                    isinstance(n.ops[0], (ast.Is, ast.IsNot)):
                r7.sites += 1
                r7.functions.add(m.fq)
                r7.ob(True, '%s|%s' % (m.qualname, norm(n)),
                      {'test': norm(n), 'sentinel': n.left.attr})
    if r7.sites == 0 and not r7.findings:
        raise AnalysisError('no test of the sentinel attribute(s) %s found'
                            % sorted(sent))
    # parameters with the same convention: default None = not given, any
    # string (also '') = given.  A parameter is such a sentinel when it has
    # the default None and flows into a sentinel attribute / is compared
    # with None somewhere in the class; every truth test of it is wrong.
    for m in cls.methods.values():
        dfl = m.param_defaults()
        opt = {p_ for p_, d_ in dfl.items()
               if isinstance(d_, ast.Constant) and d_.value is None}
        if not opt:
            continue
        none_tested = set()
        stored = set()
        for n in walk_no_nested(m.node):
            if isinstance(n, ast.Compare) and len(n.ops) == 1 and \
                    isinstance(n.ops[0], (ast.Is, ast.IsNot)) and \
                    isinstance(n.left, ast.Name) and n.left.id in opt and \
                    isinstance(n.comparators[0], ast.Constant) and \
                    n.comparators[0].value is None:
                none_tested.add(n.left.id)
            if isinstance(n, ast.Assign) and len(n.targets) == 1 and \
                    isinstance(n.targets[0], ast.Attribute) and \
                    isinstance(n.value, ast.Name) and n.value.id in opt and \
                    n.targets[0].attr.lstrip('_') == n.value.id:
                stored.add(n.value.id)
        sentinels = none_tested | stored
        if not sentinels:
            continue

        def name_truth(test, out):
            if isinstance(test, ast.BoolOp):
                for v in test.values:
                    name_truth(v, out)
            elif isinstance(test, ast.UnaryOp) and \
                    isinstance(test.op, ast.Not):
                name_truth(test.operand, out)
            elif isinstance(test, ast.Name):
                out.append(test)
        for n in walk_no_nested(m.node):
            tests = []
            if isinstance(n, (ast.If, ast.While, ast.IfExp)):
                tests.append(n.test)
            elif isinstance(n, ast.Assert):
                tests.append(n.test)
            elif isinstance(n, ast.BoolOp):
                tests.append(n)
            for t in tests:
                uses = []
                name_truth(t, uses)
                for u in uses:
                    if u.id in sentinels:
                        r7.sites += 1
                        r7.ob(False, '%s|%s' % (m.qualname, norm(t, 50)))
                        rep.finding(
                            r7, m.qualname, norm(t, 60),
                            'truthiness-of-sentinel', VM, u.lineno,
                            'the parameter %s means "not given" only when '
                            'it is None; the string it may hold can be '
                            'empty (%s=\'\'), so a truth test treats a '
                            'given value as absent' % (u.id, u.id))
        for p_ in sorted(none_tested):
            r7.sites += 1
            r7.ob(True, '%s|%s is None' % (m.qualname, p_))


def _notation_rule(repo, rep):
    """C20.R8: each integer notation accepted by _integerValue_to_int covers
    its whole DSP0004 form: (a) an optional '+' or '-' sign for every
    notation (the four patterns agree), (b) every digit of the radix that
    the branch converts with is accepted in a non-leading position.  Decided
    on the patterns themselves (regex AST samples + the regex engine), and
    on the radix written in the int() call of the branch."""
    import re as _re
    from ..guards import regex_const
    from .. import rx
    r8 = rep.rule('C20.R8', 'integer notation patterns admit both signs and '
                  'every digit of their radix')
    iv = repo.func(UTL, '_integerValue_to_int')
    r8.functions.add(iv.fq)
    branches = []     # (pattern name, pattern, flags, base)
    for n in ast.walk(iv.node):
        if not isinstance(n, ast.If):
            continue
        pname = None
        for c in ast.walk(n.test):
            if isinstance(c, ast.Call) and isinstance(c.func, ast.Attribute) \
                    and c.func.attr in ('match', 'fullmatch') and \
                    isinstance(c.func.value, ast.Name):
                pname = c.func.value.id
            elif isinstance(c, ast.Name):
                # `m = P.match(x)` before `if m:`
                for a in walk_no_nested(iv.node):
                    if isinstance(a, ast.Assign) and \
                            norm(a.targets[0]) == c.id and \
                            isinstance(a.value, ast.Call) and \
                            isinstance(a.value.func, ast.Attribute) and \
                            a.value.func.attr in ('match', 'fullmatch') and \
                            isinstance(a.value.func.value, ast.Name):
                        pname = pname or a.value.func.value.id
        if pname is None:
            continue
        base = None
        for c in [x for b in n.body for x in ast.walk(b)]:
            if isinstance(c, ast.Call) and dotted(c.func) == 'int':
                base = 10
                if len(c.args) > 1 and isinstance(c.args[1], ast.Constant):
                    base = c.args[1].value
        rc = regex_const(repo, iv, ast.Name(id=pname, ctx=ast.Load()))
        if rc is None or base is None:
            raise AnalysisError('_integerValue_to_int: branch for %s not '
                                'resolvable' % pname)
        branches.append((pname, rc[0], rc[1], base))
    if len(branches) < 4:
        raise AnalysisError('_integerValue_to_int: %d notation branches'
                            % len(branches))
    for pname, pat, flags, base in branches:
        cre = _re.compile(pat, flags)
        digs = rx.digits_for_base(base)
        if not flags & _re.IGNORECASE:
            digs = {d for d in digs if not d.isalpha() or d.islower()} \
                if base > 10 else digs
        acc = [s for s in rx.samples(rx.parse(pat, flags)) if cre.match(s)]
        unsigned = [s for s in acc if s and s[0] not in '+-']
        if not unsigned:
            raise AnalysisError('%s: no unsigned sample' % pname)
        # (a) signs
        r8.sites += 1
        missing = [sg for sg in '+-'
                   if not all(cre.match(sg + s) for s in unsigned[:20])]
        r8.ob(not missing, '%s:sign' % pname,
              {'pattern': pat, 'base': base})
        if missing:
            rep.finding(r8, iv.qualname, '%s = %s' % (pname, pat), 'sign',
                        UTL, iv.node.lineno,
                        'the %s notation (radix %d) does not accept the '
                        'sign %s although DSP0004 integerValue allows '
                        '[+-] for every notation and the sibling patterns '
                        'do: e.g. %r is rejected, so a ValueMap entry or '
                        'key value written that way is an "invalid '
                        'integer"' % (pname, base, '/'.join(missing),
                                      missing[0] + unsigned[0]))
        # (b) digit alphabet in a non-leading position
        r8.sites += 1
        cand = None
        for s in sorted(unsigned, key=len):
            idx = [i for i, ch in enumerate(s) if ch in digs]
            # skip the digits of a radix prefix (0x / leading 0)
            if len(idx) >= 2 and not (base == 16 and
                                      s[idx[-1] - 1:idx[-1]] in 'xX'):
                cand = (s, idx[-1])
                break
        if cand is None:
            raise AnalysisError('%s: no sample with two digits' % pname)
        s, i = cand
        lost = sorted(d for d in digs
                      if not cre.match(s[:i] + d + s[i + 1:]))
        r8.ob(not lost, '%s:digits' % pname, {'sample': s, 'base': base})
        if lost:
            rep.finding(r8, iv.qualname, '%s = %s' % (pname, pat),
                        'digit-alphabet', UTL, iv.node.lineno,
                        'the %s notation is converted with radix %d but its '
                        'pattern does not accept the digit(s) %s after the '
                        'first position (e.g. %r is rejected): a valid '
                        'DSP0004 value is reported as an invalid integer'
                        % (pname, base, ','.join(lost),
                           s[:i] + lost[0] + s[i + 1:]))
        # (c) only the ASCII digits of the radix: int() also converts other
        # Unicode decimal digits, so a pattern that admits them (\d in a
        # str pattern) turns a malformed entry into a number
        r8.sites += 1
        foreign = [d for d in ('\u0663', '\uff13', '\u0969')
                   if cre.match(s[:i] + d + s[i + 1:])]
        r8.ob(not foreign, '%s:ascii-digits' % pname)
        if foreign:
            rep.finding(r8, iv.qualname, '%s = %s' % (pname, pat),
                        'non-ascii-digit', UTL, iv.node.lineno,
                        'the %s notation accepts non-ASCII decimal digits '
                        '(e.g. %r): int() converts them, so a malformed '
                        'ValueMap entry / key value is taken as a number '
                        'instead of being rejected (DSP0004 digits are '
                        'US-ASCII)' % (pname, s[:i] + foreign[0] + s[i + 1:]))


def factories_agree(repo, rep):
    """C20.R9: for_property(), for_method() and for_parameter() fetch the
    class in the same way.  The value-mapped element may be inherited, so
    the class must be requested with LocalOnly=False and
    IncludeQualifiers=True in all three; a factory whose request differs
    from its siblings' (e.g. lacks LocalOnly=False, so the DSP0200 default
    LocalOnly=true applies) fails with KeyError for inherited elements."""
    r9 = rep.rule('C20.R9', 'the three ValueMapping factories request the '
                  'class with the same arguments')
    vm = repo.cls(VM, 'ValueMapping')
    calls = {}
    for fn in ('for_property', 'for_method', 'for_parameter'):
        f = vm.methods.get(fn)
        if f is None:
            raise AnalysisError('ValueMapping.%s vanished' % fn)
        r9.functions.add(f.fq)
        from ..inline import Flat
        cs = [c for c in walk_no_nested(Flat(f).node)
              if isinstance(c, ast.Call)
              and (dotted(c.func) or '').split('.')[-1].split('$')[-1] in (
                  'get_class', 'GetClass')]
        if len(cs) != 1:
            raise AnalysisError('%s: %d class requests' % (fn, len(cs)))
        calls[fn] = cs[0]
    sig = {fn: tuple(sorted((k.arg or '**', norm(k.value))
                            for k in c.keywords)) + (len(c.args),)
           for fn, c in calls.items()}
    import collections
    major = collections.Counter(sig.values()).most_common(1)[0][0]
    for fn, c in calls.items():
        r9.sites += 1
        kws = dict((k.arg, norm(k.value)) for k in c.keywords if k.arg)
        ok = sig[fn] == major and kws.get('LocalOnly') == 'False' and \
            kws.get('IncludeQualifiers') == 'True'
        r9.ob(ok, fn, {'request': norm(c, 120)})
        if not ok:
            rep.finding(r9, 'ValueMapping.' + fn, norm(c, 80),
                        'sibling-drift', VM, c.lineno,
                        '%s requests the class with %s while its siblings '
                        'use %s: without LocalOnly=False only locally '
                        'defined elements are returned, so a value-mapped '
                        'element the class inherits raises KeyError '
                        'instead of being mapped'
                        % (fn, dict(kws), dict(x for x in major[:-1])))


def _order_relations(facts):
    """the order relations (a, '<=' | '<', b) between expressions (as text)
    that a list of path facts establishes; a chained comparison known to be
    false says nothing definite and is skipped"""
    flip = {ast.Lt: ('<', False), ast.LtE: ('<=', False),
            ast.Gt: ('<', True), ast.GtE: ('<=', True)}
    neg = {ast.Lt: ast.GtE, ast.LtE: ast.Gt, ast.Gt: ast.LtE, ast.GtE: ast.Lt}
    out = set()
    for e, pol in facts:
        if not isinstance(e, ast.Compare):
            continue
        if not pol and len(e.ops) != 1:
            continue
        items = [e.left] + list(e.comparators)
        for l_, op, r_ in zip(items, e.ops, items[1:]):
            t = type(op)
            if t not in flip:
                continue
            if not pol:
                t = neg[t]
            sym, swap = flip[t]
            a_, b_ = (norm(r_), norm(l_)) if swap else (norm(l_), norm(r_))
            out.add((a_, sym, b_))
    return out


def keys_as_stored(repo, rep):
    """C20.R10: the translation tables are read with keys of the form they
    were stored under.  The tables map Values strings / integers exactly as
    they appear in the qualifiers (tovalues() and items() hand those strings
    out unchanged); a lookup that first transforms its argument
    (`values_str.strip()`, `.lower()`) finds another entry - or none - for a
    string that is in the Values array, so tobinary(tovalues(x)) no longer
    contains x."""
    r10 = rep.rule('C20.R10', 'translation tables are read with the key in '
                   'the form it was stored in')
    vm = repo.cls(VM, 'ValueMapping')
    tables = {}
    for f in vm.methods.values():
        for n in walk_no_nested(f.node):
            if isinstance(n, ast.Assign) and \
                    isinstance(n.value, (ast.Dict, ast.Call)) and \
                    len(n.targets) == 1 and \
                    isinstance(n.targets[0], ast.Attribute) and \
                    n.targets[0].attr.startswith('_') and \
                    (isinstance(n.value, ast.Dict) or
                     dotted(n.value.func) in ('OrderedDict', 'dict',
                                              'NocaseDict')):
                tables.setdefault(n.targets[0].attr, None)
    if len(tables) < 2:
        raise AnalysisError('C20.R10: translation tables of ValueMapping '
                            'not found')

    def shape(k):
        """the transformations applied to the key variable"""
        out = []
        while True:
            if isinstance(k, ast.Call) and \
                    isinstance(k.func, ast.Attribute):
                out.append('.' + k.func.attr)
                k = k.func.value
            elif isinstance(k, ast.Call) and isinstance(k.func, ast.Name) \
                    and len(k.args) == 1:
                out.append(k.func.id)
                k = k.args[0]
            elif isinstance(k, ast.Subscript):
                out.append('[]')
                k = k.value
            else:
                break
        return tuple(out)
    stores, reads = {}, {}
    for f in vm.methods.values():
        # locals that stand for a table: `table = self._v2b_dict`
        alias = {}
        for n in walk_no_nested(f.node):
            if isinstance(n, ast.Assign) and len(n.targets) == 1 and \
                    isinstance(n.targets[0], ast.Name) and \
                    isinstance(n.value, ast.Attribute) and \
                    n.value.attr in tables:
                alias[n.targets[0].id] = n.value.attr

        def table_of(x):
            if isinstance(x, ast.Attribute) and x.attr in tables:
                return x.attr
            if isinstance(x, ast.Name) and x.id in alias:
                return alias[x.id]
            return None
        for n in walk_no_nested(f.node):
            key = tab = None
            store = False
            if isinstance(n, ast.Subscript) and table_of(n.value):
                tab, key = table_of(n.value), n.slice
                store = isinstance(n.ctx, ast.Store)
            elif isinstance(n, ast.Call) and \
                    isinstance(n.func, ast.Attribute) and \
                    n.func.attr in ('get', 'pop', 'setdefault') and \
                    table_of(n.func.value) and n.args:
                tab, key = table_of(n.func.value), n.args[0]
            elif isinstance(n, ast.Compare) and len(n.ops) == 1 and \
                    isinstance(n.ops[0], (ast.In, ast.NotIn)) and \
                    table_of(n.comparators[0]):
                tab, key = table_of(n.comparators[0]), n.left
            if tab is None:
                continue
            (stores if store else reads).setdefault(tab, []).append(
                (f, n, shape(key)))
    n_reads = 0
    for tab, rs in sorted(reads.items()):
        st_shapes = {sh for _f, _n, sh in stores.get(tab, [])}
        if not st_shapes:
            continue
        for f, n, sh in rs:
            n_reads += 1
            r10.sites += 1
            r10.functions.add(f.fq)
            ok = sh in st_shapes
            r10.ob(ok, '%s|%s' % (f.qualname, norm(n, 60)),
                   {'table': tab, 'key_form': list(sh),
                    'stored_forms': sorted(map(list, st_shapes))})
            if not ok:
                rep.finding(r10, f.qualname, norm(n, 70), 'key-transformed',
                            VM, n.lineno,
                            'table %s is filled with keys of the form %s '
                            'but read here with a key transformed by %s: a '
                            'Values string / value that is in the table is '
                            'not found under (or is confused with) another '
                            'entry' % (tab, sorted(map(list, st_shapes)),
                                       list(sh)))
    if n_reads < 1:
        raise AnalysisError('C20.R10: only %d table reads found' % n_reads)


def readers_answer_from_tables(repo, rep):
    """C20.R11: tovalues(), tobinary() and items() answer from the tables
    that _create_for_element built.  The builder reconciles the sizes of the
    two qualifier arrays on copies (padding with values_default, cutting the
    surplus) and resolves ranges; the qualifier objects of the element stay
    as they were.  A reader that goes back to `<element>.qualifiers` walks
    the unreconciled arrays: entries filled in from values_default are
    missing from items(), and a surplus Values string is looked up in a
    table that does not have it."""
    r11 = rep.rule('C20.R11', 'the lookup methods read the translation '
                   'tables, never the raw qualifiers of the element')
    vm = repo.cls(VM, 'ValueMapping')
    roots = [n for n in ('tovalues', 'tobinary', 'items') if
             n in vm.methods]
    if len(roots) < 3:
        raise AnalysisError('C20.R11: lookup methods of ValueMapping '
                            'vanished')
    builder = vm.methods.get('_create_for_element')
    if builder is None or not any(
            isinstance(n, ast.Attribute) and n.attr == 'qualifiers'
            for n in ast.walk(builder.node)):
        raise AnalysisError('C20.R11: the table builder no longer reads the '
                            'qualifiers (rule premise gone)')
    # closure of the readers over calls of own methods / properties
    props = {n for n, m in vm.methods.items() if any(
        dotted(d) == 'property' for d in m.node.decorator_list)}
    todo, seen = list(roots), []
    while todo:
        n = todo.pop()
        if n in seen:
            continue
        seen.append(n)
        for x in ast.walk(vm.methods[n].node):
            if isinstance(x, ast.Attribute) and \
                    isinstance(x.value, ast.Name) and \
                    x.value.id in ('self', 'cls') and \
                    x.attr in vm.methods and x.attr != '_create_for_element':
                todo.append(x.attr)
    for n in sorted(seen):
        f = vm.methods[n]
        r11.sites += 1
        r11.functions.add(f.fq)
        raw = [x for x in ast.walk(f.node) if isinstance(x, ast.Attribute)
               and x.attr == 'qualifiers']
        # `self.element` / `self._element_obj` handed to something else is
        # not a read of the arrays; only the qualifiers attribute is
        r11.ob(not raw, f.qualname + ':tables-only',
               {'reads_raw_qualifiers': [norm(x, 60) for x in raw]})
        for x in raw:
            rep.finding(r11, f.qualname, norm(x, 70), 'raw-qualifier-read',
                        VM, x.lineno,
                        'a lookup method reads the qualifiers of the element '
                        'instead of the tables built from the size-'
                        'reconciled copies: entries added from '
                        'values_default are missing and cut-off Values '
                        'strings are still there')


def table_searches_are_exhaustive(repo, rep):
    """C20.R12: the tables are filled in the order of the ValueMap array,
    which DSP0004 leaves free (ranges may be listed in any order, may
    overlap).  A lookup that walks a table therefore ends only by returning
    (or recording) the entry that matched, or by running out of entries: a
    `break` taken for an entry that did *not* match (`if v < lo: break` -
    'the rest cannot match either') silently assumes an ascending table,
    and values inside a range listed later are no longer claimed."""
    r12 = rep.rule('C20.R12', 'loops over the translation tables end only '
                   'on a match or at the end of the table')
    vm = repo.cls(VM, 'ValueMapping')
    roots = [n for n in ('tovalues', 'tobinary', 'items') if
             n in vm.methods]
    todo, seen = list(roots), []
    while todo:
        n = todo.pop()
        if n in seen:
            continue
        seen.append(n)
        for x in ast.walk(vm.methods[n].node):
            if isinstance(x, ast.Attribute) and \
                    isinstance(x.value, ast.Name) and \
                    x.value.id in ('self', 'cls') and \
                    x.attr in vm.methods and x.attr != '_create_for_element':
                todo.append(x.attr)
    nloops = 0
    for n in sorted(seen):
        f = vm.methods[n]
        alias = {a.targets[0].id for a in walk_no_nested(f.node)
                 if isinstance(a, ast.Assign) and len(a.targets) == 1 and
                 isinstance(a.targets[0], ast.Name) and
                 isinstance(a.value, ast.Attribute) and
                 a.value.attr.startswith(('_b2v', '_v2b'))}
        for lp in walk_no_nested(f.node):
            if not isinstance(lp, ast.For):
                continue
            over = [x for x in ast.walk(lp.iter) if
                    (isinstance(x, ast.Attribute) and
                     x.attr.startswith(('_b2v', '_v2b'))) or
                    (isinstance(x, ast.Name) and x.id in alias)]
            if not over:
                continue
            nloops += 1
            r12.sites += 1
            r12.functions.add(f.fq)
            tnames = {x.id for x in ast.walk(lp.target)
                      if isinstance(x, ast.Name)}
            # names taken from the entry inside the body (unpacking)
            grew = True
            while grew:
                grew = False
                for a in ast.walk(lp):
                    if isinstance(a, ast.Assign) and \
                            {x.id for x in ast.walk(a.value)
                             if isinstance(x, ast.Name)} & tnames:
                        for t in a.targets:
                            for x in ast.walk(t):
                                if isinstance(x, ast.Name) and \
                                        x.id not in tnames:
                                    tnames.add(x.id)
                                    grew = True
            inside = {id(x) for x in ast.walk(lp)}
            read_outside = {x.id for x in ast.walk(f.node)
                            if isinstance(x, ast.Name) and
                            isinstance(x.ctx, ast.Load) and
                            id(x) not in inside}

            def breaks(stmts, recorded):
                """Break statements (of this loop) with whether a match was
                recorded in the statements that lead to them"""
                out = []
                rec = recorded
                for st in stmts:
                    if isinstance(st, ast.Break):
                        out.append((st, rec))
                    elif isinstance(st, ast.Assign):
                        # something is put aside for the code after the
                        # loop (a value of the entry, a found flag): the
                        # entry matched
                        tg = {x.id for t in st.targets for x in ast.walk(t)
                              if isinstance(x, ast.Name)}
                        if tg & read_outside:
                            rec = True
                    elif isinstance(st, (ast.For, ast.While)):
                        # breaks inside belong to the inner loop
                        out += breaks(st.orelse, rec)
                    elif isinstance(st, ast.If):
                        out += breaks(st.body, rec)
                        out += breaks(st.orelse, rec)
                    elif isinstance(st, ast.Try):
                        out += breaks(st.body, rec)
                        for h in st.handlers:
                            out += breaks(h.body, rec)
                        out += breaks(st.orelse, rec)
                        out += breaks(st.finalbody, rec)
                    elif isinstance(st, ast.With):
                        out += breaks(st.body, rec)
                return out
            bs = breaks(lp.body, False)
            bad = [b for b, rec in bs if not rec]
            r12.ob(not bad, '%s|for %s in %s' % (f.qualname, norm(lp.target),
                                                 norm(lp.iter, 40)),
                   {'breaks': len(bs)})
            for b in bad:
                rep.finding(r12, f.qualname,
                            'for %s in %s: ... break'
                            % (norm(lp.target), norm(lp.iter, 40)),
                            'search-cut-short', VM, b.lineno,
                            'the walk over %s is left by a break although '
                            'no entry was taken: entries listed later (the '
                            'ValueMap order is free) are never looked at, so '
                            'a value inside a later range is reported as '
                            'unclaimed / raises ValueError'
                            % norm(lp.iter, 40))
    if nloops < 1:
        raise AnalysisError('C20.R12: no loop over a translation table '
                            'found in the lookup methods')
