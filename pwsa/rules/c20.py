"""C20 - ValueMapping implements the DSP0004 ValueMap/Values semantics.
Thin: error discipline, regex-guarded integer notations, recursion measure,
mirror-image range resolution."""
import ast

from ..model import AnalysisError, walk_no_nested, dotted, norm, eqsrc
from ..escape import EscapeAnalysis
from ..guards import conv_guard_factory
from ..resolve import Resolver

EXPLANATION = (
    "Thin structural check (stated as such): (R1) interprocedural "
    "exception-escape analysis of the ValueMapping entry points: every "
    "explicit raise, int()/float() conversion and use of a "
    "possibly-None regex match that can propagate out must be ModelError, "
    "ValueError, TypeError, the documented KeyError for a missing element, "
    "or a pywbem.Error from the connection; (R2) the four int(x, base) "
    "conversions of _integerValue_to_int are each dominated by a successful "
    "match of a module regex whose language (alphabet from the regex AST, "
    "end anchoring, generated samples) lies inside the domain of that "
    "conversion; (R3) a self-recursive function must not call itself with "
    "both i-1 and i+1 for the same parameter (no decreasing measure: "
    "adjacent open ranges recurse forever); (R4) the open-low and open-high "
    "branches of _values_tuple are mirror images (first/last index, "
    "minvalue/maxvalue, neighbour's hi+1 / lo-1). Does not decide which "
    "Values string claims which integer.")
ASSUMPTIONS = [
    "conn.GetClass raises only pywbem.Error subclasses (C02 for the client)",
    "IndexError/arithmetic are outside the catalogue of raise sites",
    "assert statements on this path are type invariants of internal values "
    "(exception constructors, _element_str), not data-dependent",
]

VM = 'pywbem/_valuemapping.py'
UTL = 'pywbem/_utils.py'
ALLOWED = ('ModelError', 'ValueError', 'TypeError', 'Error')


def run(repo, rep, tier):
    r1 = rep.rule('C20.R1', 'only documented exceptions escape '
                  'ValueMapping')
    r2 = rep.rule('C20.R2', 'integer notations are regex-guarded')
    r3 = rep.rule('C20.R3', 'recursion has a measure')
    r4 = rep.rule('C20.R4', 'open-range resolution branches are mirror '
                  'images')
    cls = repo.cls(VM, 'ValueMapping')
    log = []
    ea = EscapeAnalysis(repo, Resolver(repo),
                        conv_guard=conv_guard_factory(repo, log))
    entry_names = ['for_property', 'for_method', 'for_parameter',
                   '_create_for_element', '_values_tuple', '_to_int',
                   'tovalues', '_tovalues_single', 'tobinary', 'items']
    entries = []
    for n in entry_names:
        f = cls.methods.get(n)
        if f is None:
            raise AnalysisError('ValueMapping.%s vanished' % n)
        entries.append(f)
    ea.solve(entries)
    seen = set()
    for f in entries:
        r1.sites += 1
        r1.functions.add(f.fq)
        for e in ea.summ.get(f.fq, {}).values():
            if e.kind == 'assert':
                # type/invariant assertions on internal values (exception
                # constructors, _element_str): not data-dependent
                continue
            ok = any(ea.h.is_sub(e.exc, a) for a in ALLOWED)
            if e.exc == 'KeyError' and e.kind == 'raise' and \
                    e.func.startswith('ValueMapping.for_'):
                ok = True           # documented: element does not exist
            r1.ob(ok, '%s|%s|%s' % (e.func, e.construct, e.exc),
                  {'entry': f.qualname, 'may_raise': e.exc,
                   'origin': '%s: %s' % (e.func, e.construct)})
            if not ok and e.key not in seen:
                seen.add(e.key)
                rep.finding(r1, e.func, e.construct, e.exc, e.file, e.line,
                            '%s can escape from ValueMapping.%s (documented: '
                            'ModelError, ValueError, TypeError)'
                            % (e.exc, f.name),
                            path=[f.qualname] + list(e.chain) + [e.func])
    r1.notes.append('functions analysed: %d; calls resolved/builtin/stdlib/'
                    'unresolved: %s' % (len(ea.analysed), ea.call_stats))
    # ---- R2 ---------------------------------------------------------------
    iv = repo.func(UTL, '_integerValue_to_int')
    rv = repo.func(UTL, '_realValue_to_float')
    ea2 = EscapeAnalysis(repo, ea.res, conv_guard=conv_guard_factory(repo,
                                                                     log))
    ea2.solve([iv, rv])
    for f in (iv, rv):
        r2.functions.add(f.fq)
        convs = [n for n in walk_no_nested(f.node) if isinstance(n, ast.Call)
                 and dotted(n.func) in ('int', 'float')]
        r2.sites += len(convs)
        leaks = {e.construct: e for e in ea2.summ.get(f.fq, {}).values()
                 if e.kind == 'conv'}
        for c in convs:
            ok = norm(c) not in leaks
            why = [x for x in log if x['conversion'] == norm(c) and
                   x['function'] == f.qualname]
            r2.ob(ok, '%s|%s' % (f.name, norm(c)),
                  {'conversion': norm(c),
                   'guard': why[-1] if why else 'none found'})
            if not ok:
                rep.finding(r2, f.qualname, norm(c), 'unguarded-conversion',
                            UTL, c.lineno,
                            'conversion is not covered by a regex whose '
                            'language lies in its domain: %s'
                            % (why[-1]['why'] if why else
                               'no dominating successful match'))
    if r2.sites < 5:
        raise AnalysisError('expected 5 guarded conversions in _utils, '
                            'found %d' % r2.sites)
    # ---- R3 ---------------------------------------------------------------
    mod = repo.module(VM)
    for f in mod.all_funcs():
        params = f.params
        rec = []
        for n in walk_no_nested(f.node):
            if isinstance(n, ast.Call) and dotted(n.func) in (
                    'self.' + f.name, 'cls.' + f.name, f.name):
                rec.append(n)
        if not rec:
            continue
        r3.sites += 1
        r3.functions.add(f.fq)
        plist = [p for p in params if p not in ('self', 'cls')]
        for idx, p in enumerate(plist):
            ups = [c for c in rec if idx < len(c.args) and
                   isinstance(c.args[idx], ast.BinOp) and
                   isinstance(c.args[idx].op, ast.Add) and
                   norm(c.args[idx].left) == p]
            downs = [c for c in rec if idx < len(c.args) and
                     isinstance(c.args[idx], ast.BinOp) and
                     isinstance(c.args[idx].op, ast.Sub) and
                     norm(c.args[idx].left) == p]
            ok = not (ups and downs)
            r3.ob(ok, '%s|%s' % (f.qualname, p),
                  {'function': f.qualname, 'parameter': p,
                   'recursive_calls': [norm(c, 80) for c in rec]})
            if not ok:
                rep.finding(r3, f.qualname, '%s(%s - 1 ...) and %s(%s + 1 '
                            '...)' % (f.name, p, f.name, p), 'no-measure',
                            VM, ups[0].lineno,
                            'the function recurses with both %s-1 and %s+1: '
                            'no decreasing measure, e.g. ValueMap '
                            '{"1..", "..5"} recurses until RecursionError'
                            % (p, p))
    # ---- R4 ---------------------------------------------------------------
    vt = cls.methods['_values_tuple']
    r4.functions.add(vt.fq)
    branches = {}
    for n in walk_no_nested(vt.node):
        if isinstance(n, ast.If) and isinstance(n.test, ast.Compare) and \
                norm(n.test) in ("lo == ''", "hi == ''"):
            branches[norm(n.test)[:2]] = n
    if set(branches) != {'lo', 'hi'}:
        raise AnalysisError('_values_tuple: open-end branches not found')
    spec = {
        'lo': {'edge': 'i == 0', 'limit': 'cimtype.minvalue',
               'rec': 'i - 1', 'pick': 1, 'adj': ast.Add},
        'hi': {'edge': 'i == len(valuemap_list) - 1',
               'limit': 'cimtype.maxvalue', 'rec': 'i + 1', 'pick': 0,
               'adj': ast.Sub},
    }
    for which, br in branches.items():
        r4.sites += 1
        sp = spec[which]
        inner = [s for s in br.body if isinstance(s, ast.If)]
        ok = len(inner) == 1 and eqsrc(inner[0].test, sp['edge'])
        detail = {'branch': which, 'edge_test': norm(inner[0].test)
                  if inner else None}
        if ok:
            e = inner[0]
            lim = [s for s in e.body if isinstance(s, ast.Assign) and
                   norm(s.targets[0]) == which]
            ok = len(lim) == 1 and norm(lim[0].value) == sp['limit']
            detail['limit'] = norm(lim[0].value) if lim else None
            recs = [s for s in e.orelse if isinstance(s, ast.Assign) and
                    isinstance(s.value, ast.Call) and
                    dotted(s.value.func) == 'self._values_tuple']
            if ok and len(recs) == 1:
                rc = recs[0]
                ok = norm(rc.value.args[0]) == sp['rec'] and \
                    isinstance(rc.targets[0], ast.Tuple) and \
                    len(rc.targets[0].elts) == 3
                if ok:
                    picked = rc.targets[0].elts[sp['pick']]
                    others = [x for i, x in enumerate(rc.targets[0].elts)
                              if i != sp['pick']]
                    ok = isinstance(picked, ast.Name) and \
                        picked.id != '_' and all(norm(x) == '_'
                                                 for x in others)
                    adj = [s for s in e.orelse if isinstance(s, ast.Assign)
                           and norm(s.targets[0]) == which]
                    ok = ok and len(adj) == 1 and \
                        isinstance(adj[0].value, ast.BinOp) and \
                        isinstance(adj[0].value.op, sp['adj']) and \
                        norm(adj[0].value.left) == picked.id and \
                        norm(adj[0].value.right) == '1'
                    detail['neighbour'] = norm(rc, 100)
                    detail['adjust'] = norm(adj[0]) if adj else None
            else:
                ok = False
        r4.ob(ok, '_values_tuple:' + which, detail)
        if not ok:
            rep.finding(r4, vt.qualname, "%s == ''" % which, 'mirror', VM,
                        br.lineno, 'the open-%s branch is not the mirror '
                        'image of the other one (edge test %s -> %s, '
                        'neighbour %s, adjust by 1)'
                        % (which, sp['edge'], sp['limit'], sp['rec']))
