"""C01 - CIM objects survive the CIM-XML wire format.
Decides writer/reader/DTD table agreement and the slot -> XML chain."""
import ast
import re

from ..model import (AnalysisError, walk_no_nested, dotted, norm, const_str,
                     fold_const, NotConst, module_env)
from ..cfg import stmt_facts
from .. import dtd as dtdmod
from .. import xmltables as X
from ..guards import regex_const

EXPLANATION = (
    "Writer/reader/DTD table agreement, extracted from the source on every "
    "run: (R1) every CIM-XML element class that pywbem constructs has a "
    "parse_<element> method that is not the notimplemented stub; (R2) for "
    "each element the attributes its writer class can emit (from "
    "setName/setAttribute/setOptionalAttribute, conditional ones counted "
    "only if some construction site passes the parameter) are accepted by "
    "the reader's check_node() table and declared in the DTD, and every "
    "attribute the reader or the DTD requires is emitted unconditionally; "
    "(R3) every attribute the reader accepts is actually read in the parse "
    "method (xml:lang is the documented tolerated-and-ignored exception); "
    "(R4) every slot of the 9 CIM object classes is read by its tocimxml(); "
    "(R5) the type-name tables agree: _TYPE_FROM_NAME keys + reference = "
    "ALL_CIMTYPES = DTD %CIMType; + reference, each value class's cimtype "
    "equals its key, NUMERIC_CIMTYPE_PATTERN matches exactly the numeric "
    "names, unpack_single_value has a branch for every non-reference type; "
    "(R6) NULL array entries: unpack_single_value returns None for None "
    "before delegating to the helpers that require a value; (R7) the "
    "reader's default for each optional attribute equals the DTD default. "
    "(R8) children are parsed and written in document order: no sorting / "
    "set conversion on the encode/parse path (outside message formatting "
    "and the unordered SCOPE attributes) and every child-parsing loop of "
    "TupleParser runs directly over the child list, not nested in a loop "
    "over element names; (R9) the text of a string value is carried "
    "unchanged: pcdata(), every parse method that reads pcdata, "
    "unpack_value, the string branch of unpack_single_value, the SAX "
    "character handler, the str branch of atomic_to_cim_xml, VALUE, "
    "_pcdata_nodes and _text apply no text-transforming method, slice or "
    "re.sub to it. Does not decide CR/LF normalisation by the XML layer, "
    "float digits (C06) or byte-identical re-encoding.")
ASSUMPTIONS = [
    "tests/dtd/DSP0203_2.3.1.dtd is the DSP0203 DTD",
    "the reader tolerates more than the DTD (EMBEDDEDOBJECT upper-case, TYPE "
    "on PARAMVALUE): tolerated extras are not violations",
]

OBJ = 'pywbem/_cim_obj.py'
TYP = 'pywbem/_cim_types.py'
TP = 'pywbem/_tupleparse.py'
OBJ_CLASSES = ['CIMInstanceName', 'CIMInstance', 'CIMClassName', 'CIMClass',
               'CIMProperty', 'CIMMethod', 'CIMParameter', 'CIMQualifier',
               'CIMQualifierDeclaration']
# DSP0201 has no place for the class path inside <CLASS>; it is carried by
# the enclosing VALUE.OBJECTWITHPATH / CLASSPATH that the caller builds.
SLOT_EXCEPTIONS = {('CIMClass', 'path')}
NUMERIC = {'uint8', 'uint16', 'uint32', 'uint64', 'sint8', 'sint16',
           'sint32', 'sint64', 'real32', 'real64'}


def passed_params(repo, writers):
    """{class name: set of __init__ parameter names some construction site
    passes}"""
    cons = X.constructed_elements(repo)
    out = {}
    for w in writers.values():
        cname = w.cls.name
        params = [p for p in w.init.params if p != 'self']
        s = set()
        for _, _, _, call in cons.get(cname, []):
            for i, a in enumerate(call.args):
                if i < len(params):
                    s.add(params[i])
            for k in call.keywords:
                if k.arg:
                    s.add(k.arg)
        out[cname] = s
    return out, cons


def attr_param(w, attr):
    """the __init__ parameter that feeds attribute `attr` (or None)"""
    for c in walk_no_nested(w.init.node):
        if isinstance(c, ast.Call) and dotted(c.func) in (
                'self.setOptionalAttribute', 'self.setAttribute') and \
                len(c.args) == 2 and const_str(c.args[0]) == attr:
            for x in ast.walk(c.args[1]):
                if isinstance(x, ast.Name) and x.id in w.init.params:
                    return x.id
    return None


def run(repo, rep, tier):
    r1 = rep.rule('C01.R1', 'every constructed element has a parser')
    r2 = rep.rule('C01.R2', 'attribute tables agree (writer/reader/DTD)')
    r3 = rep.rule('C01.R3', 'accepted attributes are consumed')
    r4 = rep.rule('C01.R4', 'every slot reaches tocimxml()')
    r5 = rep.rule('C01.R5', 'type-name tables agree')
    r6 = rep.rule('C01.R6', 'NULL array entries are accepted by the reader')
    r7 = rep.rule('C01.R7', 'reader defaults equal DTD defaults')
    D = dtdmod.load(repo)
    W = X.writers(repo)
    R = X.readers(repo)
    passed, cons = passed_params(repo, W)
    tp = repo.cls(TP, 'TupleParser')
    byclass = {w.cls.name: w for w in W.values()}

    # ---- R1 ---------------------------------------------------------------
    for cname, sites in sorted(cons.items()):
        w = byclass.get(cname)
        if w is None:
            continue
        r1.sites += 1
        pm = tp.methods.get(X.parse_method_name(w.element))
        stub = pm is not None and any(
            isinstance(c, ast.Call) and dotted(c.func) == 'self.notimplemented'
            for c in walk_no_nested(pm.node))
        ok = pm is not None and not stub
        r1.ob(ok, w.element, {'element': w.element,
                              'constructed_at': len(sites),
                              'parser': pm.qualname if pm else None})
        if not ok:
            rep.finding(r1, 'TupleParser', X.parse_method_name(w.element),
                        'no-parser', TP, tp.node.lineno,
                        'pywbem constructs <%s> (e.g. %s) but has no '
                        'implemented parser for it' % (w.element,
                                                       sites[0][1]))
    # ---- R2 ---------------------------------------------------------------
    for e, w in sorted(W.items()):
        r = R.get(e)
        if r is None:
            continue
        r2.sites += 1
        r2.functions.update([w.init.fq, r.func.fq])
        live = set(w.uncond)
        for a in w.cond:
            p = attr_param(w, a)
            if p is None or p in passed.get(w.cls.name, set()) or \
                    not cons.get(w.cls.name):
                live.add(a)
        ra = (r.required or set()) | (r.optional or set())
        d = D.attrs(e)
        checks = [
            (live - ra, 'writer-not-read',
             'the writer emits attribute(s) %s that parse_%s rejects '
             '(check_node does not list them)'),
            ((r.required or set()) - w.uncond, 'required-not-written',
             'the reader requires attribute(s) %s that the writer does not '
             'always emit (%s)'),
            (live - d, 'writer-not-in-dtd',
             'the writer emits attribute(s) %s not declared in the DTD for '
             '%s'),
            (D.required(e) - w.uncond, 'dtd-required-not-written',
             'the DTD requires attribute(s) %s that the writer does not '
             'always emit (%s)'),
        ]
        for diff, fact, msg in checks:
            ok = not diff
            r2.ob(ok, '%s:%s' % (e, fact),
                  {'element': e, 'writer': sorted(live),
                   'reader_required': sorted(r.required or ()),
                   'reader_optional': sorted(r.optional or ()),
                   'dtd': sorted(d)})
            if not ok:
                rep.finding(r2, w.cls.name, '%s %s' % (e, sorted(diff)), fact,
                            X.XML, w.init.node.lineno,
                            msg % (sorted(diff), e))
    # dynamic attribute names (SCOPE: k.upper() over the scope table)
    for e, w in sorted(W.items()):
        r = R.get(e)
        if r is None or 'k.upper()' not in w.dynamic:
            continue
        qd = repo.cls(OBJ, 'CIMQualifierDeclaration')
        osc = qd.find_const('_ordered_scopes')
        names = {const_str(x).upper() for x in osc.elts} if osc is not None \
            else set()
        # a true ANY is expanded by the writer; a false one is written
        expands_any = any(isinstance(n, ast.Compare) and
                          const_str(n.left) == 'any'
                          for n in walk_no_nested(w.init.node))
        skips_any = any(isinstance(n, ast.Compare) and
                        isinstance(n.ops[0], (ast.Eq, ast.NotEq)) and
                        'ANY' in norm(n) and isinstance(
                            n.left, ast.Call)
                        for n in walk_no_nested(w.init.node))
        ra = (r.required or set()) | (r.optional or set())
        diff = names - ra
        if skips_any:
            diff -= {'ANY'}
        ok = bool(names) and not diff
        r2.ob(ok, e + ':dynamic', {'element': e, 'possible_names':
                                   sorted(names), 'reader': sorted(ra)})
        if not ok:
            rep.finding(r2, w.cls.name, '%s %s' % (e, sorted(diff)),
                        'dynamic-not-read', X.XML, w.init.node.lineno,
                        'the writer can emit attribute(s) %s (a key of the '
                        'scopes dictionary with a false value) that '
                        'parse_scope rejects' % sorted(diff))
    # ---- R3 ---------------------------------------------------------------
    for e, r in sorted(R.items()):
        f = r.func
        r3.sites += 1
        r3.functions.add(f.fq)
        txt_keys = set()
        whole = False
        for n in walk_no_nested(f.node):
            if isinstance(n, ast.Constant) and isinstance(n.value, str):
                txt_keys.add(n.value)
            if isinstance(n, ast.Return) and n.value is not None:
                # the whole attribute dict is handed on
                for x in ast.walk(n.value):
                    if X.is_attr_dict(x, f):
                        whole = True
            if isinstance(n, ast.For) and 'attrs(' in norm(n.iter):
                whole = True
        # constants used in check_node itself do not count as reads
        used = set()
        for n in walk_no_nested(f.node):
            if isinstance(n, (ast.Subscript, ast.Call, ast.Compare)):
                if isinstance(n, ast.Call) and \
                        dotted(n.func) == 'self.check_node':
                    continue
                for x in ast.walk(n):
                    if isinstance(x, ast.Constant) and \
                            isinstance(x.value, str):
                        if isinstance(n, ast.Call) and \
                                dotted(n.func) == 'self.check_node':
                            continue
                        used.add(x.value)
        # remove keys that only occur inside the check_node call
        cn_only = set()
        for n in walk_no_nested(f.node):
            if isinstance(n, ast.Call) and dotted(n.func) == 'self.check_node':
                inner = {x.value for x in ast.walk(n)
                         if isinstance(x, ast.Constant) and
                         isinstance(x.value, str)}
                outer = set()
                for m in walk_no_nested(f.node):
                    if isinstance(m, ast.Constant) and \
                            isinstance(m.value, str) and not any(
                                m is y for y in ast.walk(n)):
                        outer.add(m.value)
                # attribute names read by a helper of the same class that
                # is handed the attribute dictionary
                for m in walk_no_nested(f.node):
                    if isinstance(m, ast.Call) and \
                            (dotted(m.func) or '').startswith(
                                ('self.', 'cls.')) and \
                            dotted(m.func) != 'self.check_node' and \
                            f.cls is not None and \
                            any(X.is_attr_dict(a_, f) for a_ in m.args):
                        h_ = f.cls.find_method(dotted(m.func).split('.')[1])
                        if h_ is not None:
                            outer |= {y.value for y in ast.walk(h_.node)
                                      if isinstance(y, ast.Constant) and
                                      isinstance(y.value, str)}
                cn_only = inner - outer
        for a in sorted((r.required or set()) | (r.optional or set())):
            if a == 'xml:lang':
                continue
            ok = whole or a not in cn_only
            r3.ob(ok, '%s:%s' % (e, a), {'element': e, 'attribute': a,
                                         'read_in': f.qualname})
            if not ok:
                rep.finding(r3, f.qualname, '%s@%s' % (e, a), 'not-consumed',
                            TP, f.node.lineno,
                            'attribute %s of <%s> is accepted by check_node '
                            'but never read: its value is dropped when the '
                            'object is parsed back' % (a, e))
    # ---- R4 ---------------------------------------------------------------
    for cname in OBJ_CLASSES:
        cls = repo.cls(OBJ, cname)
        f = cls.methods.get('tocimxml')
        if f is None:
            raise AnalysisError('%s.tocimxml vanished' % cname)
        r4.sites += 1
        r4.functions.add(f.fq)
        used = {n.attr for n in walk_no_nested(f.node)
                if isinstance(n, ast.Attribute) and
                isinstance(n.value, ast.Name) and n.value.id == 'self'}
        for s in cls.slots() or []:
            a = s.lstrip('_')
            if (cname, a) in SLOT_EXCEPTIONS:
                continue
            ok = a in used or s in used
            r4.ob(ok, '%s.%s' % (cname, a), {'class': cname, 'slot': a})
            if not ok:
                rep.finding(r4, f.qualname, a, 'slot-not-written', OBJ,
                            f.node.lineno, 'attribute %r of %s does not '
                            'take part in its CIM-XML representation'
                            % (a, cname))
    # ---- R5 ---------------------------------------------------------------
    typ = repo.module(TYP)
    tfn = typ.consts.get('_TYPE_FROM_NAME')
    if not isinstance(tfn, ast.Dict):
        raise AnalysisError('_TYPE_FROM_NAME vanished')
    keys = {const_str(k) for k in tfn.keys}
    obj = repo.module(OBJ)
    act = obj.consts.get('ALL_CIMTYPES')
    all_types = {const_str(e) for e in act.elts} if isinstance(
        act, (ast.Set, ast.List, ast.Tuple)) else None
    if not all_types:
        raise AnalysisError('ALL_CIMTYPES vanished')
    m = re.match(r'TYPE \(([^)]*)\)', D.entities.get('CIMType', ''))
    dtd_types = set(m.group(1).split('|')) if m else set()
    r5.sites = 4
    for name, a, b in (('_TYPE_FROM_NAME+reference vs ALL_CIMTYPES',
                        keys | {'reference'}, all_types),
                       ('DTD %CIMType;+reference vs ALL_CIMTYPES',
                        dtd_types | {'reference'}, all_types)):
        ok = a == b
        r5.ob(ok, name, {'tables': name, 'difference': sorted(a ^ b)})
        if not ok:
            rep.finding(r5, 'type tables', name, 'type-tables', TYP,
                        tfn.lineno, 'the CIM type name tables differ: %s'
                        % sorted(a ^ b))
    for k, v in zip(tfn.keys, tfn.values):
        kn = const_str(k)
        if isinstance(v, ast.Name) and v.id in typ.classes:
            ct = typ.classes[v.id].find_const('cimtype')
            ok = const_str(ct) == kn
            r5.ob(ok, 'cimtype:' + kn)
            if not ok:
                rep.finding(r5, v.id, 'cimtype', 'cimtype', TYP, v.lineno,
                            '_TYPE_FROM_NAME[%r] is %s whose cimtype is %r'
                            % (kn, v.id, const_str(ct)))
    usv = tp.methods.get('unpack_single_value')
    rc = regex_const(repo, usv, ast.Name(id='NUMERIC_CIMTYPE_PATTERN',
                                         ctx=ast.Load()))
    if rc is None:
        raise AnalysisError('NUMERIC_CIMTYPE_PATTERN not resolvable')
    cre = re.compile(rc[0], rc[1])
    for t in sorted(all_types):
        ok = bool(cre.match(t)) == (t in NUMERIC)
        r5.ob(ok, 'numeric-pattern:' + t)
        if not ok:
            rep.finding(r5, 'NUMERIC_CIMTYPE_PATTERN', t, 'numeric-pattern',
                        TP, usv.node.lineno, 'the numeric type pattern '
                        'misclassifies %r' % t)
    branch_consts = {x.value for x in walk_no_nested(usv.node)
                     if isinstance(x, ast.Constant) and
                     isinstance(x.value, str)}
    for t in sorted(all_types - NUMERIC - {'reference'}):
        ok = t in branch_consts
        r5.ob(ok, 'unpack-branch:' + t)
        if not ok:
            rep.finding(r5, usv.qualname, t, 'no-branch', TP,
                        usv.node.lineno, 'unpack_single_value has no branch '
                        'for CIM type %r' % t)
    # ---- R6 ---------------------------------------------------------------
    facts = stmt_facts(usv.node)
    helpers = ('unpack_boolean', 'unpack_numeric', 'unpack_datetime',
               'unpack_char16')
    for st, (fs, _) in facts.items():
        for c in ast.walk(st) if not isinstance(
                st, (ast.If, ast.For, ast.While, ast.Try)) else []:
            if isinstance(c, ast.Call) and dotted(c.func) in (
                    'self.' + h for h in helpers) and c.args:
                r6.sites += 1
                arg = norm(c.args[0])
                h = tp.methods.get(dotted(c.func)[5:])
                needs = h is not None and any(
                    isinstance(a, ast.Assert) and
                    norm(a.test) == '%s is not None' % [
                        p for p in h.params if p != 'self'][0]
                    for a in h.body)
                ok = (not needs) or any(
                    (not pol) and norm(t) == arg + ' is None'
                    for t, pol in fs)
                r6.ob(ok, dotted(c.func), {'call': norm(c),
                                           'callee_requires_value': needs})
                if not ok:
                    rep.finding(r6, usv.qualname, norm(c), 'null-entry', TP,
                                c.lineno, 'a NULL array entry (VALUE.NULL, '
                                'data is None) reaches %s which asserts a '
                                'value: arrays with NULL entries of this '
                                'type cannot be parsed back'
                                % dotted(c.func)[5:])
    if r6.sites < 4:
        raise AnalysisError('unpack_single_value: helper calls not found')
    # ---- R7 ---------------------------------------------------------------
    for e, r in sorted(R.items()):
        f = r.func
        for c in walk_no_nested(f.node):
            if isinstance(c, ast.Call) and isinstance(c.func, ast.Attribute) \
                    and c.func.attr == 'get' and len(c.args) == 2 and \
                    const_str(c.args[0]) is not None and \
                    X.is_attr_dict(c.func.value, f):
                a = const_str(c.args[0])
                dd = D.attlists.get(e, {}).get(a)
                if dd is None:
                    continue
                r7.sites += 1
                r7.functions.add(f.fq)
                rd = c.args[1]
                rdef = rd.value if isinstance(rd, ast.Constant) else '?'
                ddef = dd['default']
                if ddef in ('#IMPLIED', '#REQUIRED'):
                    ok = True        # the DTD defines no default
                else:
                    ok = rdef == ddef
                    if not ok and rdef is None:
                        # `v = attrl.get(K, None)` ... `if v is None or
                        # v == '<dtd default>'`: None is mapped to the
                        # DTD default explicitly
                        var = None
                        for a2 in walk_no_nested(f.node):
                            if isinstance(a2, ast.Assign) and \
                                    a2.value is c and \
                                    isinstance(a2.targets[0], ast.Name):
                                var = a2.targets[0].id
                        for b in walk_no_nested(f.node):
                            if var and isinstance(b, ast.BoolOp) and \
                                    isinstance(b.op, ast.Or):
                                ts = [norm(v) for v in b.values]
                                if '%s is None' % var in ts and \
                                        '%s == %r' % (var, ddef) in ts:
                                    ok = True
                r7.ob(ok, '%s@%s' % (e, a), {'element': e, 'attribute': a,
                                             'reader_default': rdef,
                                             'dtd_default': ddef})
                if not ok:
                    rep.finding(r7, f.qualname, '%s@%s default %r' % (e, a,
                                                                      rdef),
                                'default', TP, c.lineno,
                                'the reader defaults %s of <%s> to %r but '
                                'the DTD default is %r: an omitted attribute '
                                'reads back with the wrong value'
                                % (a, e, rdef, ddef))
    if r7.sites < 15:
        raise AnalysisError('only %d attribute defaults found' % r7.sites)

    _order_and_text_rules(repo, rep, tp)
    _linearity(repo, rep)
    _null_vs_empty(repo, rep, tp)
    _attr_own_condition(repo, rep)
    _position_by_index(repo, rep)
    real_text_rule(repo, rep)
    nested_objects_encoded_completely(repo, rep)
    # the path of a decoded instance arrives as it was sent: it is attached
    # after the properties (CIMInstance.__setitem__ would rewrite its
    # keybindings from same-named properties)
    from .c04 import path_attached_after_properties
    path_attached_after_properties(repo, rep, 'C01.R17')
    converted_values_are_used(repo, rep)
    slots_reach_the_element_on_every_path(repo, rep)
    # the datetime writer str(CIMDateTime) is part of every VALUE written for
    # a datetime: same exact-arithmetic rule as C06.R8
    from .c06 import _r8_exact_fields
    _r8_exact_fields(repo, rep, 'C01.R12')


REORDER_FUNCS = {'sorted', 'reversed', 'set', 'frozenset'}
REORDER_METHODS = {'sort', 'reverse'}
TEXT_TRANSFORMS = {'strip', 'lstrip', 'rstrip', 'lower', 'upper', 'title',
                   'capitalize', 'swapcase', 'casefold', 'expandtabs',
                   'replace', 'translate', 'splitlines', 'split', 'rsplit',
                   'zfill', 'center', 'ljust', 'rjust', 'format',
                   'removeprefix', 'removesuffix', 'partition',
                   'rpartition'}
XML = 'pywbem/_cim_xml.py'
TT = 'pywbem/_tupletree.py'


def _loops_around(func):
    """{id(node): [enclosing For / comprehension-generator nodes, outermost
    first]} for the nodes of func (nested defs excluded)."""
    out = {}

    def rec(node, stack):
        out[id(node)] = stack
        if isinstance(node, (ast.FunctionDef, ast.AsyncFunctionDef,
                             ast.Lambda)) and node is not func.node:
            return
        if isinstance(node, (ast.For, ast.AsyncFor)):
            rec(node.target, stack)
            rec(node.iter, stack)
            for st in node.body:
                rec(st, stack + [node])
            for st in node.orelse:
                rec(st, stack)
            return
        if isinstance(node, (ast.ListComp, ast.SetComp, ast.GeneratorExp,
                             ast.DictComp)):
            st2 = list(stack)
            for g in node.generators:
                rec(g.iter, st2)
                st2 = st2 + [g]
                for c in g.ifs:
                    rec(c, st2)
            for fld in ('elt', 'key', 'value'):
                if hasattr(node, fld):
                    rec(getattr(node, fld), st2)
            return
        for c in ast.iter_child_nodes(node):
            rec(c, stack)
    rec(func.node, [])
    return out


def _order_and_text_rules(repo, rep, tp):
    r8 = rep.rule('C01.R8', 'children are parsed and written in document '
                  'order')
    r9 = rep.rule('C01.R9', 'the text of a string value is carried '
                  'unchanged')
    # ---- R8a: no reordering operation on the wire path -------------------
    wire = []
    for m in (repo.module(TP), repo.module(XML), repo.module(TT)):
        wire.extend(m.all_funcs())
    for c in repo.module(OBJ).classes.values():
        for n in ('tocimxml', 'tocimxmlstr'):
            if n in c.methods:
                wire.append(c.methods[n])
    wire.append(repo.func(OBJ, 'tocimxml'))
    for f in wire:
        r8.functions.add(f.fq)
        msg_only = set()     # inside a raise / message formatting call
        for n in walk_no_nested(f.node):
            if isinstance(n, ast.Raise) or (
                    isinstance(n, ast.Call) and (dotted(n.func) or '') in (
                        '_format', 'warnings.warn')):
                msg_only.update(id(x) for x in ast.walk(n))
        for n in walk_no_nested(f.node):
            if not isinstance(n, ast.Call) or id(n) in msg_only:
                continue
            d = dotted(n.func) or ''
            bad = d in REORDER_FUNCS or (
                isinstance(n.func, ast.Attribute) and
                n.func.attr in REORDER_METHODS)
            if not bad:
                continue
            r8.sites += 1
            # XML attributes are unordered: sorting what becomes attribute
            # names (SCOPE) cannot change child order
            into_attr = f.cls is not None and f.cls.name == 'SCOPE'
            r8.ob(into_attr, '%s|%s' % (f.qualname, norm(n, 60)),
                  {'function': f.qualname, 'call': norm(n, 60),
                   'accepted_because': 'feeds XML attributes (unordered)'
                   if into_attr else None})
            if not into_attr:
                rep.finding(r8, f.qualname, norm(n, 60), 'reorder', f.file,
                            n.lineno, 'a reordering operation on the '
                            'CIM-XML encode/parse path: child order is not '
                            'kept')
    # ---- R8b: child-parsing loops run over the child list, un-nested -----
    nparse = 0
    for f in list(tp.methods.values()):
        loops = None
        for n in walk_no_nested(f.node):
            if not (isinstance(n, ast.Call) and
                    isinstance(n.func, ast.Attribute) and
                    isinstance(n.func.value, ast.Name) and
                    n.func.value.id == 'self' and
                    n.func.attr.startswith('parse_') and n.args and
                    isinstance(n.args[0], ast.Name)):
                continue
            if loops is None:
                loops = _loops_around(f)
            stack = loops.get(id(n), [])
            var = n.args[0].id
            binder = None
            for lp in stack:
                tgt = lp.target
                if isinstance(tgt, ast.Name) and tgt.id == var:
                    binder = lp
            if binder is None:
                continue          # a single child, not a loop variable
            nparse += 1
            r8.sites += 1
            outer = [lp for lp in stack if lp is not binder and
                     stack.index(lp) < stack.index(binder)]
            it = binder.iter
            reorder = any(isinstance(x, ast.Call) and (
                (dotted(x.func) or '') in REORDER_FUNCS) for x in
                ast.walk(it))
            ok = not outer and not reorder
            r8.ob(ok, '%s|%s' % (f.qualname, norm(n, 60)),
                  {'function': f.qualname, 'parse_call': norm(n, 60),
                   'iterates': norm(it, 60),
                   'enclosing_loops': [norm(getattr(lp, 'iter', lp), 40)
                                       for lp in outer]})
            if not ok:
                rep.finding(r8, f.qualname, norm(n, 60), 'nested-loop',
                            TP, n.lineno,
                            'children are parsed inside an outer loop (%s): '
                            'the result is grouped by that loop instead of '
                            'following the order of the child elements'
                            % ', '.join(norm(getattr(lp, 'iter', lp), 40)
                                        for lp in outer) if outer else
                            'the child list is reordered before parsing')
    if nparse < 5:
        raise AnalysisError('only %d child-parsing loops found in '
                            'TupleParser' % nparse)

    # ---- R9: text channel ---------------------------------------------------
    def scan(func, seeds, stmts=None, allow=()):
        """forward taint from the seed names inside func; report
        transforming method calls / slices applied to tainted text."""
        tainted = set(seeds)
        problems = []
        body = stmts if stmts is not None else func.body
        for _ in range(3):
            for st in body:
                for n in ast.walk(st):
                    if isinstance(n, ast.Assign) and any(
                            isinstance(x, ast.Name) and x.id in tainted
                            for x in ast.walk(n.value)):
                        for t in n.targets:
                            if isinstance(t, ast.Name):
                                tainted.add(t.id)
                    if isinstance(n, (ast.For, ast.comprehension)) and any(
                            isinstance(x, ast.Name) and x.id in tainted
                            for x in ast.walk(n.iter)) and \
                            isinstance(n.target, ast.Name):
                        tainted.add(n.target.id)
        for st in body:
            for n in ast.walk(st):
                if isinstance(n, ast.Call) and \
                        isinstance(n.func, ast.Attribute) and \
                        n.func.attr in TEXT_TRANSFORMS and any(
                            isinstance(x, ast.Name) and x.id in tainted
                            for x in ast.walk(n.func.value)):
                    if norm(n) in allow:
                        continue
                    problems.append(n)
                if isinstance(n, ast.Subscript) and \
                        isinstance(n.slice, ast.Slice) and \
                        isinstance(n.value, ast.Name) and \
                        n.value.id in tainted and norm(n) not in allow:
                    problems.append(n)
                if isinstance(n, ast.Call) and (dotted(n.func) or '') in (
                        're.sub', 'textwrap.dedent') and any(
                            isinstance(x, ast.Name) and x.id in tainted
                            for x in ast.walk(n)):
                    problems.append(n)
        return problems

    def judge(func, seeds, what, stmts=None, allow=()):
        r9.sites += 1
        r9.functions.add(func.fq)
        probs = scan(func, seeds, stmts, allow)
        r9.ob(not probs, func.qualname + ':' + what,
              {'function': func.qualname, 'channel': what,
               'seeds': sorted(seeds)})
        for n in probs:
            rep.finding(r9, func.qualname, norm(n, 60), 'text-changed',
                        func.file, n.lineno,
                        'the %s is transformed here (%s): string values do '
                        'not arrive with exactly the characters that were '
                        'sent' % (what, norm(n, 50)))

    judge(repo.func(TP, 'pcdata'), {'tup_tree'}, 'character data of VALUE')
    users = [f for f in tp.methods.values() if any(
        isinstance(n, ast.Call) and dotted(n.func) == 'pcdata'
        for n in walk_no_nested(f.node))]
    if len(users) < 3:
        raise AnalysisError('only %d TupleParser methods read pcdata()'
                            % len(users))
    for f in users:
        judge(f, {'tup_tree'}, 'character data of <%s>'
              % f.name[6:].upper().replace('_', '.'))
    judge(tp.methods['parse_value_array'], {'tup_tree'},
          'character data of VALUE.ARRAY items')
    judge(tp.methods['unpack_value'], {'tup_tree'}, 'value text')
    usv = tp.methods['unpack_single_value']
    upto = []
    found = False
    for st in usv.body:
        upto.append(st)
        if isinstance(st, ast.If) and norm(st.test) in (
                "cimtype == 'string'", "cimtype in ('string',)"):
            found = True
            ret = [x for x in st.body if isinstance(x, ast.Return)]
            ok = bool(ret) and isinstance(ret[0].value, ast.Name) and \
                ret[0].value.id == 'data'
            r9.ob(ok, 'unpack_single_value:string-branch',
                  {'returns': norm(ret[0]) if ret else None})
            if not ok:
                rep.finding(r9, usv.qualname, norm(st, 60), 'text-changed',
                            TP, st.lineno, 'the string branch does not '
                            'return the received text itself')
            break
    if not found:
        raise AnalysisError('unpack_single_value: string branch not found')
    judge(usv, {'data'}, 'string value text', stmts=upto)
    hnd = repo.cls(TT, 'CIMContentHandler')
    judge(hnd.methods['characters'], {'content'}, 'SAX character data')
    # writer side
    atom = repo.func(TYP, 'atomic_to_cim_xml')
    sbranch = [n for n in walk_no_nested(atom.node) if isinstance(n, ast.If)
               and norm(n.test) == 'isinstance(obj, str)']
    if not sbranch:
        raise AnalysisError('atomic_to_cim_xml: str branch not found')
    r9.sites += 1
    r9.functions.add(atom.fq)
    ret = [x for x in sbranch[0].body if isinstance(x, ast.Return)]
    ok = bool(ret) and isinstance(ret[0].value, ast.Name) and \
        ret[0].value.id == 'obj'
    r9.ob(ok, 'atomic_to_cim_xml:str-branch',
          {'returns': norm(ret[0]) if ret else None})
    if not ok:
        rep.finding(r9, atom.qualname, norm(sbranch[0], 60), 'text-changed',
                    TYP, sbranch[0].lineno, 'the str branch does not return '
                    'the string itself')
    val = repo.cls(XML, 'VALUE')
    judge(val.methods['__init__'], {'pcdata'}, 'VALUE text')
    # the CDATA variant splits at ']]>' and re-joins with the two halves of
    # the end marker: value-preserving by construction
    judge(repo.func(XML, '_pcdata_nodes'), {'pcdata'}, 'VALUE text',
          allow=('pcdata.split(\']]>\')',))
    judge(repo.func(XML, '_text'), {'data'}, 'VALUE text')


def _linearity(repo, rep):
    """C01.R10: element nodes are linear (see pwsa/linear.py)"""
    from .. import linear
    rr = rep.rule('C01.R10', 'every constructed element node is placed into '
                  'the document at most once (DOM appendChild moves a node)')
    sites, finds = linear.check(repo)
    rr.sites = sites
    if sites < 8:
        raise AnalysisError('only %d element-node variables found in the '
                            'tocimxml()/request-building code' % sites)
    bad = {(f[1], f[2]) for f in finds}
    for i in range(sites):
        rr.ob(i >= len(bad), 'node-%d' % i)
    for file, func, construct, fact, line, msg in finds:
        rep.finding(rr, func, construct, fact, file, line, msg)


def _null_vs_empty(repo, rep, tp):
    """C01.R11: on the read path a CIM *value* (the result of unpack_value /
    parse_value_array / parse_embeddedObject / a VALUE* child, or the value
    parameter of parse_embeddedObject) is compared with None by identity:
    a truthiness test also catches the empty array [] and the empty string,
    which then come back as NULL."""
    r = rep.rule('C01.R11', 'NULL is distinguished from the empty array / '
                 'empty string by `is None`, not by truthiness')
    producers = ('self.unpack_value', 'self.parse_value_array',
                 'self.parse_embeddedObject', 'self.unpack_single_value',
                 'self.parse_value_refarray')
    for name, f in tp.methods.items():
        vals = set()
        if name == 'parse_embeddedObject':
            vals.update(p for p in f.params[1:2])
        for n in walk_no_nested(f.node):
            if isinstance(n, ast.Assign) and len(n.targets) == 1 and \
                    isinstance(n.targets[0], ast.Name) and \
                    isinstance(n.value, ast.Call):
                d = dotted(n.value.func) or ''
                if d in producers:
                    vals.add(n.targets[0].id)
                elif d in ('self.one_child', 'self.optional_child') and \
                        'VALUE.ARRAY' in norm(n.value, 400):
                    vals.add(n.targets[0].id)
        if not vals:
            continue
        r.functions.add(f.fq)

        def truth_uses(t, out):
            if isinstance(t, ast.BoolOp):
                for v in t.values:
                    truth_uses(v, out)
            elif isinstance(t, ast.UnaryOp) and isinstance(t.op, ast.Not):
                truth_uses(t.operand, out)
            elif isinstance(t, ast.Name) and t.id in vals:
                out.append(t)
        for n in walk_no_nested(f.node):
            tests = []
            if isinstance(n, (ast.If, ast.While, ast.IfExp, ast.Assert)):
                tests.append(n.test)
            elif isinstance(n, ast.BoolOp):
                tests.append(n)
            for t in tests:
                uses = []
                truth_uses(t, uses)
                for u in uses:
                    rep.finding(r, f.qualname, norm(t, 60),
                                'truthiness-of-value', X.TP, u.lineno,
                                'the CIM value %s is tested by truthiness: '
                                'an empty array (<VALUE.ARRAY/>) or empty '
                                'string is treated like NULL and does not '
                                'survive the wire format' % u.id)
            if isinstance(n, ast.Compare) and len(n.ops) == 1 and \
                    isinstance(n.ops[0], (ast.Is, ast.IsNot)) and \
                    isinstance(n.left, ast.Name) and n.left.id in vals:
                r.sites += 1
                r.ob(True, '%s|%s' % (f.qualname, norm(n)),
                     {'function': f.qualname, 'test': norm(n)})
    if r.sites < 1 and not r.findings:
        raise AnalysisError('no `is None` test of a parsed CIM value found '
                            '(anchor of C01.R11)')


def _attr_own_condition(repo, rep):
    """C01.R13: whether an element writer emits an attribute depends only on
    that attribute's own value.  A setAttribute / setOptionalAttribute call
    that sits under a condition about a different parameter (typically by
    an indentation slip) drops the attribute for some combinations - the
    XML stays valid and the value silently reads back as None."""
    from ..cfg import stmt_facts
    r13 = rep.rule('C01.R13', 'an attribute is emitted depending only on its '
                   'own value')
    m = repo.module('pywbem/_cim_xml.py')
    for c in m.classes.values():
        init = c.methods.get('__init__')
        if init is None:
            continue
        sets = []
        for st, (fs, _t) in stmt_facts(init.node).items():
            if isinstance(st, ast.Expr) and isinstance(st.value, ast.Call) \
                    and (dotted(st.value.func) or '') in (
                        'self.setAttribute', 'self.setOptionalAttribute') \
                    and len(st.value.args) == 2:
                sets.append((st, fs))
        own = {}
        for st, fs in sets:
            a = norm(st.value.args[0])
            own.setdefault(a, set()).update(
                x.id for x in ast.walk(st.value.args[1])
                if isinstance(x, ast.Name))
        for st, fs in sets:
            r13.sites += 1
            r13.functions.add(init.fq)
            a = norm(st.value.args[0])
            gn = set()
            for t, _p in fs:
                gn |= {x.id for x in ast.walk(t) if isinstance(x, ast.Name)}
            extra = sorted(gn - own[a] - {'self'})
            r13.ob(not extra, '%s|%s' % (c.name, a),
                   {'element_class': c.name, 'attribute': a})
            if extra:
                rep.finding(r13, init.qualname, norm(st, 80),
                            'foreign-condition', 'pywbem/_cim_xml.py',
                            st.lineno,
                            'attribute %s is only written when a condition '
                            'on %s holds, which is not its own value: for '
                            'the other combinations the attribute is '
                            'silently dropped and reads back as None'
                            % (a, ', '.join(extra)))
    if r13.sites < 40:
        raise AnalysisError('C01.R13: only %d attribute writes found'
                            % r13.sites)


def _position_by_index(repo, rep):
    """C01.R14: first / last pieces of a split text are told apart by their
    position, not by comparing the piece with list[0] / list[-1].  In
    _pcdata_nodes() the pieces between `]]>` markers are re-joined with
    partial markers; with a comparison by value a piece that equals the
    first or last one loses its marker part and the string arrives altered
    (`a]]>a` -> `aa`)."""
    r14 = rep.rule('C01.R14', 'loop positions are decided by index, not by '
                   'comparing the item with the first / last element')
    XMLF = 'pywbem/_cim_xml.py'
    m = repo.module(XMLF)
    loops = 0
    for f in m.all_funcs():
        for lp in walk_no_nested(f.node):
            if not (isinstance(lp, ast.For) and
                    isinstance(lp.target, ast.Name) and
                    isinstance(lp.iter, ast.Name)):
                continue
            loops += 1
            item, lst = lp.target.id, lp.iter.id
            for c in ast.walk(lp):
                if isinstance(c, ast.Compare) and len(c.ops) == 1 and \
                        isinstance(c.ops[0], (ast.Eq, ast.NotEq, ast.Is,
                                              ast.IsNot)):
                    sides = [c.left, c.comparators[0]]
                    names = [norm(x) for x in sides]
                    if item in names and any(
                            isinstance(x, ast.Subscript) and
                            norm(x.value) == lst for x in sides):
                        r14.sites += 1
                        r14.ob(False, '%s|%s' % (f.qualname, norm(c)))
                        rep.finding(r14, f.qualname, norm(c, 70),
                                    'position-by-value', XMLF, c.lineno,
                                    'the loop over %s decides whether %s is '
                                    'the first / last element by comparing '
                                    'values: an inner element that equals '
                                    'it is treated as first / last too, so '
                                    'text re-assembled from the pieces '
                                    '(CDATA sections around `]]>`) differs '
                                    'from the original' % (lst, item))
    r14.sites += 1
    r14.ob(loops >= 1, 'loops-scanned', {'loops': loops})
    if loops < 1:
        raise AnalysisError('C01.R14: only %d loops scanned' % loops)


def converted_values_are_used(repo, rep):
    """C01.R18: in the modules that read and write the wire format a local
    that receives the result of a call is read again.  The typed value the
    reader builds (`type_obj(value)`) must be what it returns; a rename
    that leaves `return value` behind still validates the text but hands
    back the plain Python number, so a Uint8 key comes back as int and the
    re-encoded XML loses its TYPE attribute.  (Names starting with `_` or
    `unused` are exempt - the marked placeholders of tuple unpacking.)"""
    r18 = rep.rule('C01.R18', 'no result of a call is bound to a local that '
                   'is never read (wire-format modules)')
    nfun = 0
    for rel in (TP, 'pywbem/_tupletree.py', 'pywbem/_cim_types.py',
                'pywbem/_cim_xml.py'):
        for f in repo.module(rel).all_funcs():
            nfun += 1
            stores, loads = {}, set()
            for n in walk_no_nested(f.node):
                if isinstance(n, ast.Name):
                    if isinstance(n.ctx, ast.Store):
                        stores.setdefault(n.id, []).append(n)
                    else:
                        loads.add(n.id)
            # names read by nested functions count as read
            for g in ast.walk(f.node):
                if isinstance(g, (ast.FunctionDef, ast.Lambda)) and \
                        g is not f.node:
                    loads |= {x.id for x in ast.walk(g)
                              if isinstance(x, ast.Name)}
            for a in walk_no_nested(f.node):
                if not (isinstance(a, ast.Assign) and len(a.targets) == 1 and
                        isinstance(a.targets[0], ast.Name) and
                        isinstance(a.value, ast.Call)):
                    continue
                nm = a.targets[0].id
                if nm.startswith(('_', 'unused')) or nm in loads:
                    continue
                r18.ob(False, '%s|%s' % (f.qualname, nm))
                rep.finding(r18, f.qualname, norm(a, 60), 'result-dropped',
                            rel, a.lineno,
                            'the result of %s is bound to %s, which is never '
                            'read: the converted / constructed value is '
                            'dropped and something else is used in its place'
                            % (norm(a.value, 40), nm))
    r18.sites += 1
    r18.ob(nfun > 150, 'functions-scanned', {'functions': nfun})
    if nfun < 150:
        raise AnalysisError('C01.R18: only %d functions scanned' % nfun)


def nested_objects_encoded_completely(repo, rep):
    """C01.R16: an object nested in another one (a reference value in a
    keybinding or property, the path of an instance, a property, a
    qualifier, ...) is encoded completely.  The `ignore_host` /
    `ignore_namespace` / `ignore_path` parameters of tocimxml() ask for a
    reduced encoding of the object they are called on; handing them on to
    the tocimxml() of a nested object drops path components that belong to
    the *value* (the namespace and host of a reference keybinding), and the
    re-parsed object differs from the one sent.  A nested call may pass
    `ignore_x=True` only where the component is known to be None on that
    path (`self.path.namespace is None`), where it changes nothing."""
    from ..cfg import stmt_facts, GuardWalker
    r16 = rep.rule('C01.R16', 'nested objects are encoded with all their '
                   'components (no ignore_* flag reaches a nested object)')
    mod = repo.module(OBJ)
    flagged = {}
    for c in mod.classes.values():
        m = c.methods.get('tocimxml')
        if m is None:
            continue
        flags = [p_ for p_ in m.params if p_.startswith('ignore_')]
        if flags:
            flagged[c.name] = [p_ for p_ in m.params if p_ != 'self']
    all_flags = sorted({p_ for ps in flagged.values() for p_ in ps
                        if p_.startswith('ignore_')})
    if len(all_flags) < 2:
        raise AnalysisError('C01.R16: the ignore_* parameters of tocimxml() '
                            'were not found')
    n = 0
    for f in mod.all_funcs():
        if f.name not in ('tocimxml',) or f.cls is None:
            continue
        fx = None
        for c in walk_no_nested(f.node):
            if not (isinstance(c, ast.Call) and
                    isinstance(c.func, ast.Attribute) and
                    c.func.attr == 'tocimxml'):
                continue
            recv = norm(c.func.value)
            if recv in ('self',) or recv.startswith('super('):
                continue
            n += 1
            r16.sites += 1
            r16.functions.add(f.fq)
            given = []
            for i, a in enumerate(c.args):
                # positional: the position in the path classes' signature
                names = {ps[i] for ps in flagged.values() if i < len(ps)}
                given.append((sorted(names)[0] if len(names) == 1
                              else 'ignore_?', a))
            given += [(k.arg or 'ignore_?', k.value) for k in c.keywords]
            bad = []
            for pn, a in given:
                if not pn.startswith('ignore_'):
                    continue
                if isinstance(a, ast.Constant) and a.value is False:
                    continue
                if isinstance(a, ast.Constant) and a.value is True and \
                        pn != 'ignore_?':
                    comp = pn[len('ignore_'):]
                    if fx is None:
                        fx = stmt_facts(f.node)
                    want = '%s.%s is None' % (recv, comp)
                    ok = False
                    for st, (fs, _t) in fx.items():
                        if isinstance(st, (ast.If, ast.For, ast.While,
                                           ast.Try, ast.With)):
                            continue
                        if any(x is c for x in ast.walk(st)):
                            atoms = [a_ for t0, p0 in fs
                                     for a_ in GuardWalker._atoms(t0, p0)]
                            ok = any(norm(t) == want and pol
                                     for t, pol in atoms)
                    if ok:
                        continue
                bad.append('%s=%s' % (pn, norm(a, 30)))
            r16.ob(not bad, '%s|%s' % (f.qualname, norm(c, 60)))
            if bad:
                rep.finding(r16, f.qualname, norm(c, 70), 'nested-reduced',
                            OBJ, c.lineno,
                            'the nested object %s is encoded with %s: its '
                            'own host / namespace / path is dropped from '
                            'the XML although it is part of the value, so '
                            'the object parsed back differs from the one '
                            'encoded' % (recv, ', '.join(bad)))
    if n < 10:
        raise AnalysisError('C01.R16: only %d nested tocimxml() calls found'
                            % n)


def real_text_rule(repo, rep):
    """C01.R15: the text written for a real32 / real64 value determines the
    value.  On every path of atomic_to_cim_xml() for a real, the returned
    string is the complete result of a conversion with enough significant
    digits (9 for real32, 17 for real64), possibly with text added - never
    a piece of it (the significand without the exponent: 1E+22 is sent as
    1.0) and never a conversion with fewer digits.  Private helpers are
    inlined; pwsa/realtext.py is the interpreter."""
    from ..inline import Flat
    from .. import realtext
    r15 = rep.rule('C01.R15', 'real values are written with their complete, '
                   'sufficiently precise text')
    f = repo.func('pywbem/_cim_types.py', 'atomic_to_cim_xml')
    if f is None:
        raise AnalysisError('atomic_to_cim_xml vanished')
    r15.functions.add(f.fq)
    fl = Flat(f)
    pn = f.params[0]

    def which(pth):
        """'real32' / 'real64' when the path is the branch of that type"""
        for t, pol in pth.facts:
            if pol and isinstance(t, ast.Call) and \
                    dotted(t.func) == 'isinstance' and \
                    norm(t.args[0]) == pn:
                names = {norm(x) for x in (
                    t.args[1].elts if isinstance(t.args[1], ast.Tuple)
                    else [t.args[1]])}
                if 'Real32' in names:
                    return 'real32'
                if names & {'Real64', 'float', 'CIMFloat'}:
                    return 'real64'
        return None
    seen = {}
    for kind, need in (('real32', 9), ('real64', 17)):
        res = realtext.analyse(fl, {pn}, need,
                               select=lambda p_, k=kind: which(p_) == k)
        seen[kind] = len(res)
        for pth, verdict, detail in res:
            r15.sites += 1
            if verdict == 'undecided':
                r15.undecided.append('%s: %s' % (kind, detail))
                continue
            r15.ob(verdict == 'ok', '%s|%s' % (kind, detail),
                   {'type': kind, 'digits_needed': need})
            if verdict != 'ok':
                rep.finding(
                    r15, f.qualname, 'return %s' % detail,
                    '%s:%s' % (kind, verdict), 'pywbem/_cim_types.py',
                    getattr(pth.ret_stmt, 'lineno', f.node.lineno),
                    {'partial-text': 'a %s value is written as a piece of '
                     'its formatted text (e.g. the significand without the '
                     'exponent): 1E+22 is sent as 1.0 and comes back as '
                     'another value',
                     'precision': 'a %s value is formatted with fewer than '
                     'the digits that determine it: the value that comes '
                     'back differs in the last bits',
                     'constant': 'a %s value is written as a constant that '
                     'no comparison of its text on this path justifies'
                     }[verdict] % kind)
    if not seen['real32'] or not seen['real64']:
        raise AnalysisError('atomic_to_cim_xml: branches for the real types '
                            'not found (%s)' % seen)


def slots_reach_the_element_on_every_path(repo, rep):
    """C01.R19: what tocimxml() hands to an element constructor for an
    attribute that is a slot of the object (array_size, class_origin,
    propagated, ...) is that slot on every way through the method.  A local
    that is preset to None and filled from the slot only in one branch
    (`array_size = None ... if isinstance(self.value, list): array_size =
    self.array_size`) drops the attribute for the objects that take the
    other branch - a fixed-size array declaration without a default value
    loses its ARRAYSIZE and comes back as a variable-size array."""
    r19 = rep.rule('C01.R19', 'attributes that are slots of the object are '
                   'written from the slot on every path of tocimxml()')
    mod = repo.module(OBJ)
    ncalls = 0
    for cname, cls in sorted(mod.classes.items()):
        f = cls.methods.get('tocimxml')
        if f is None:
            continue
        slots = {x.lstrip('_') for x in (cls.slots() or [])}
        for c in walk_no_nested(f.node):
            if not (isinstance(c, ast.Call) and
                    (dotted(c.func) or '').startswith('_cim_xml.')):
                continue
            for kw in c.keywords:
                if kw.arg not in slots or not isinstance(kw.value, ast.Name):
                    continue
                ncalls += 1
                r19.sites += 1
                r19.functions.add(f.fq)
                defs = [a.value for a in walk_no_nested(f.node)
                        if isinstance(a, ast.Assign) and any(
                            isinstance(t, ast.Name) and t.id == kw.value.id
                            for t in a.targets)]
                from_slot = [d for d in defs if any(
                    isinstance(x, ast.Attribute) and x.attr == kw.arg and
                    isinstance(x.value, ast.Name) and x.value.id == 'self'
                    for x in ast.walk(d))]
                blank = [d for d in defs if isinstance(d, ast.Constant) and
                         d.value is None]
                ok = not (from_slot and blank)
                r19.ob(ok, '%s|%s=%s' % (f.qualname, kw.arg, kw.value.id))
                if not ok:
                    rep.finding(r19, f.qualname,
                                '%s=%s' % (kw.arg, kw.value.id),
                                'slot-on-some-paths', OBJ, c.lineno,
                                'the %s attribute is taken from a local that '
                                'is None unless one branch copies self.%s '
                                'into it: objects taking the other branch '
                                'are encoded without the attribute and do '
                                'not parse back equal'
                                % (kw.arg.upper().replace('_', ''), kw.arg))
    # the direct form `array_size=self.array_size` is the normal one; the
    # rule only speaks about locals, so zero sites is a legitimate state
    r19.notes.append('%d slot attributes passed through a local' % ncalls)
