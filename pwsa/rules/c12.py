"""C12 - class inheritance resolved correctly; class queries mirror the
hierarchy.  Thin: decides name-comparison discipline, shared subtree
closure, and that request flags only remove information."""
import ast

from ..model import (AnalysisError, walk_no_nested, dotted, norm, eqsrc,
                     fold_const, NotConst)
from .. import names

EXPLANATION = (
    "Thin structural check (stated as such): (R1) every ==, !=, in, not in "
    "of the mock server's class/instance code whose operand is a CIM name "
    "(attribute classname/superclass/class_origin/reference_class, a "
    "DSP0200 name parameter, or a local reached by one) compares "
    "case-folded values or uses a NocaseList/NocaseDict - decided by a "
    "small abstract interpretation of normalisation kinds with call-site "
    "parameter kinds and return kinds; (R2) no str method is compared "
    "uncalled; (R3) EnumerateClasses/EnumerateClassNames obtain children or "
    "subtree from the same helper call, EnumerateInstances/"
    "EnumerateInstanceNames/DeleteClass from the same closure helper, which "
    "is the deep variant of the former plus the class itself; (R4) the "
    "LocalOnly/IncludeQualifiers/IncludeClassOrigin/PropertyList processing "
    "in get_class and its helpers only deletes or blanks parts of a copy. "
    "Does not decide the correctness of qualifier propagation / "
    "class_origin / propagated resolution (algorithmic content quantified "
    "over hierarchies).")
ASSUMPTIONS = [
    "NocaseList/NocaseDict membership is case-insensitive (C05.R2 checks "
    "the vendored implementation)",
    "reviewed_safe: the LocalOnly branch of MainProvider._get_instance is "
    "dead because every call site passes the module constant "
    "INSTANCE_RETRIEVE_LOCAL_ONLY = False",
]

MAIN = 'pywbem_mock/_mainprovider.py'
BASE = 'pywbem_mock/_baseprovider.py'
SCOPE_FILES = {'pywbem_mock/_resolvermixin.py', MAIN, BASE,
               'pywbem_mock/_providerdispatcher.py',
               'pywbem_mock/_instancewriteprovider.py',
               'pywbem_mock/_mockmofwbemconnection.py'}


def _calls(func, name):
    return [n for n in walk_no_nested(func.node)
            if isinstance(n, ast.Call) and dotted(n.func) == 'self.' + name]


def _argtext(call):
    return [norm(a) for a in call.args] + \
        sorted('%s=%s' % (k.arg, norm(k.value)) for k in call.keywords)


def run(repo, rep, tier):
    no_memo_tables(repo, rep, 'C12.R12')
    inherited_elements_marked_unconditionally(repo, rep)
    namespace_validated_first(repo, rep, 'C12.R10', lambda n: 'Class' in n or 'Qualifier' in n)
    r1 = rep.rule('C12.R1', 'CIM names are compared case-insensitively')
    r2 = rep.rule('C12.R2', 'no uncalled string method in a comparison')
    r3 = rep.rule('C12.R3', 'subtree queries share one closure')
    r4 = rep.rule('C12.R4', 'request flags only remove')

    def scope(f):
        if f.file not in SCOPE_FILES:
            return False
        root = f
        while root.parent is not None:
            root = root.parent
        return root.name not in names.ASSOC_FUNCS
    names.run_name_rules(repo, rep, r1, r2, scope)

    r5 = rep.rule('C12.R5', 'error messages of the class resolver/provider '
                  'code can be built (well-formed format strings)')
    new_class_is_stored_whole(repo, rep)
    compiler_names_the_namespace(repo, rep, 'C12.R17')
    operation_parameters_are_used(
        repo, rep, 'C12.R14', lambda n: 'Class' in n or 'Qualifier' in n)
    # hierarchies built by MOF compilation: the flavors written on a
    # qualifier (`: Restricted`) reach the compiled class - every
    # value-carrying grammar symbol is read by its action
    from .c08 import _r8_symbols_consumed
    _r8_symbols_consumed(repo, rep, 'C12.R15', exempt={
        ('p_instanceDeclaration', 'qualifierList'):
        'qualifiers written on an instance take no part in class '
        'resolution (their loss is the C08 finding)'})
    from ..guards import run_format_rule
    run_format_rule(repo, rep, r5, lambda f: f.file in (
        'pywbem_mock/_resolvermixin.py', BASE) or (
        f.file == MAIN and f.name in (
            'EnumerateClasses', 'EnumerateClassNames', 'GetClass',
            'CreateClass', 'ModifyClass', 'DeleteClass',
            '_get_subclass_names', '_get_superclass_names',
            '_get_subclass_list_for_enums', '_validate_dependencies_exist')))

    r6 = rep.rule('C12.R6', 'propagated / class_origin / qualifier flavor '
                  'bookkeeping of the class resolver')
    redeclared_flavors(repo, rep)
    flavor_default_rule(repo, rep)
    resolve_gets_deep_copy(repo, rep)
    from .c10 import status_follows_existence
    status_follows_existence(repo, rep, 'C12.R11', lambda f: 'Class' in f.name
                             or 'Qualifier' in f.name or
                             'subclass' in f.name)
    inheritance_marks(repo, rep, r6)

    mp = repo.cls(MAIN, 'MainProvider')
    bp = repo.cls(BASE, 'BaseProvider')

    def meth(cls, n):
        m = cls.find_method(n)
        if m is None:
            raise AnalysisError('%s.%s vanished' % (cls.name, n))
        return m

    # ---- R3 ---------------------------------------------------------------
    from ..inline import Flat
    KEEP = ('_get_subclass_names', '_get_subclass_list_for_enums')

    def fmeth(cls, n):
        # judged with private helpers inlined (except the closure functions
        # themselves, whose calls are what the rule looks for)
        return Flat(meth(cls, n), keep=KEEP)
    ec, ecn = fmeth(mp, 'EnumerateClasses'), fmeth(mp, 'EnumerateClassNames')
    ca, cb = _calls(ec, '_get_subclass_names'), \
        _calls(ecn, '_get_subclass_names')
    r3.sites += 2
    r3.functions.update([ec.fq, ecn.fq])
    ok = len(ca) == 1 and len(cb) == 1 and _argtext(ca[0]) == _argtext(cb[0])
    r3.ob(ok, 'EnumerateClasses~EnumerateClassNames',
          {'EnumerateClasses': norm(ca[0]) if ca else None,
           'EnumerateClassNames': norm(cb[0]) if cb else None})
    if not ok:
        rep.finding(r3, ec.qualname + '/' + ecn.qualname,
                    '_get_subclass_names(...)', 'closure-differs', MAIN,
                    ec.node.lineno, 'EnumerateClasses and EnumerateClassNames '
                    'do not select the classes with the same '
                    '_get_subclass_names call')
    if ca:
        a = _argtext(ca[0])
        ok = len(a) == 3 and a[0] == 'ClassName' and a[2] == 'DeepInheritance'
        r3.ob(ok, 'EnumerateClasses:args')
        if not ok:
            rep.finding(r3, ec.qualname, norm(ca[0]), 'closure-args', MAIN,
                        ca[0].lineno, 'children/subtree are not selected by '
                        '(ClassName, class_store, DeepInheritance)')
    encl = fmeth(mp, '_get_subclass_list_for_enums')
    r3.functions.add(encl.fq)
    inner = _calls(encl, '_get_subclass_names')
    ok = len(inner) == 1 and len(inner[0].args) == 3 and \
        norm(inner[0].args[0]) == encl.params[1] and \
        norm(inner[0].args[2]) == 'True'
    appended = any(isinstance(n, ast.Call) and
                   isinstance(n.func, ast.Attribute) and
                   n.func.attr == 'append' and n.args and
                   norm(n.args[0]) == encl.params[1]
                   for n in walk_no_nested(encl.node))
    wraps = any(isinstance(n, ast.Call) and dotted(n.func) == 'NocaseList'
                for n in walk_no_nested(encl.node))
    r3.ob(ok and appended and wraps, '_get_subclass_list_for_enums',
          {'deep_call': norm(inner[0]) if inner else None,
           'appends_class_itself': appended, 'NocaseList': wraps})
    if not (ok and appended and wraps):
        rep.finding(r3, encl.qualname, 'closure', 'closure-shape', MAIN,
                    encl.node.lineno, 'the instance-enumeration closure is '
                    'not NocaseList(deep subclasses) + the class itself')
    for n in ('EnumerateInstances', 'EnumerateInstanceNames', 'DeleteClass'):
        f = fmeth(mp, n)
        r3.sites += 1
        r3.functions.add(f.fq)
        cs = _calls(f, '_get_subclass_list_for_enums')
        ok = len(cs) == 1 and len(cs[0].args) == 3 and \
            norm(cs[0].args[0]) == 'ClassName'
        var = None
        if ok:
            for a in walk_no_nested(f.node):
                if isinstance(a, ast.Assign) and a.value is cs[0] and \
                        isinstance(a.targets[0], ast.Name):
                    var = a.targets[0].id
            from ..flow import value_of as _vo3
            ok = var is not None and any(
                isinstance(c, ast.Compare) and len(c.ops) == 1 and
                isinstance(c.ops[0], (ast.In, ast.NotIn)) and
                norm(c.comparators[0]) == var and
                norm(_vo3(f, c.left)).endswith('.classname')
                for c in ast.walk(f.node))
        r3.ob(ok, n + ':closure', {'operation': n, 'closure_var': var})
        if not ok:
            rep.finding(r3, f.qualname, '_get_subclass_list_for_enums',
                        'closure-unused', MAIN, f.node.lineno,
                        '%s does not select instances by membership of '
                        'their class in the shared subtree closure' % n)
    dc = fmeth(mp, 'DeleteClass')
    cs = _calls(dc, '_get_subclass_names')
    ok = len(cs) == 1 and len(cs[0].args) == 3 and \
        norm(cs[0].args[0]) == 'ClassName' and norm(cs[0].args[2]) == 'True'
    lst = None
    if ok:
        for a in walk_no_nested(dc.node):
            if isinstance(a, ast.Assign) and a.value is cs[0]:
                lst = norm(a.targets[0])
    app = any(isinstance(n, ast.Call) and isinstance(n.func, ast.Attribute)
              and n.func.attr == 'append' and norm(n.func.value) == lst and
              n.args and norm(n.args[0]) == 'ClassName'
              for n in walk_no_nested(dc.node))
    loop_del = False
    for n in walk_no_nested(dc.node):
        if isinstance(n, ast.For) and norm(n.iter) == lst and \
                isinstance(n.target, ast.Name):
            for c in ast.walk(n):
                if isinstance(c, ast.Call) and \
                        dotted(c.func) == 'class_store.delete' and c.args \
                        and norm(c.args[0]) == n.target.id:
                    loop_del = True
    r3.ob(ok and app and loop_del, 'DeleteClass:subtree',
          {'deep_subclasses': ok, 'plus_class': app,
           'deletes_each': loop_del})
    if not (ok and app and loop_del):
        rep.finding(r3, dc.qualname, 'subtree deletion', 'delete-subtree',
                    MAIN, dc.node.lineno, 'DeleteClass does not delete '
                    'exactly the deep subclass closure plus the class itself')
    gsn = fmeth(mp, '_get_subclass_names')
    r3.functions.add(gsn.fq)
    rec = _calls(gsn, '_get_subclass_names')
    ok = len(rec) == 1 and len(rec[0].args) == 3 and \
        norm(rec[0].args[2]) == gsn.params[-1]
    def _child_test(c):
        if not (isinstance(c, ast.Compare) and len(c.ops) == 1 and
                isinstance(c.ops[0], ast.Eq)):
            return False
        sides = [norm(c.left), norm(c.comparators[0])]
        want = gsn.params[1] + '.lower()'
        return any(x.endswith('.superclass.lower()') for x in sides) and \
            want in sides
    child = any(_child_test(c) for c in ast.walk(gsn.node))
    r3.ob(ok and child, '_get_subclass_names:recursion',
          {'recursive_call': norm(rec[0]) if rec else None,
           'child_test': child})
    if not (ok and child):
        rep.finding(r3, gsn.qualname, 'children/recursion', 'closure-def',
                    MAIN, gsn.node.lineno, '_get_subclass_names does not '
                    'define children by superclass equality (case-folded) '
                    'and recurse with the same deep flag')

    # ---- R4 ---------------------------------------------------------------
    gc = meth(bp, 'get_class')
    helpers = [gc, meth(bp, 'filter_properties'),
               meth(bp, '_remove_qualifiers'), meth(bp, '_remove_classorigin')]
    # the class is fetched as a copy
    got = [n for n in walk_no_nested(gc.node) if isinstance(n, ast.Call) and
           dotted(n.func) == 'class_store.get']
    ok = len(got) == 1 and any(k.arg == 'copy' and norm(k.value) == 'True'
                               for k in got[0].keywords)
    r4.ob(ok, 'get_class:copy')
    if not ok:
        rep.finding(r4, gc.qualname, 'class_store.get(..., copy=True)',
                    'no-copy', BASE, gc.node.lineno,
                    'get_class filters the stored class object itself')
    objnames = {'klass', 'obj'}
    for f in helpers:
        r4.sites += 1
        r4.functions.add(f.fq)
        for n in walk_no_nested(f.node):
            targets = []
            if isinstance(n, ast.Assign):
                targets = [(t, n.value) for t in n.targets]
            elif isinstance(n, ast.AugAssign):
                targets = [(n.target, n.value)]
            for t, v in targets:
                base = t
                while isinstance(base, (ast.Attribute, ast.Subscript)):
                    base = base.value
                if not (isinstance(base, ast.Name) and base.id in objnames
                        and t is not base):
                    continue
                blank = (isinstance(v, ast.Constant) and v.value is None) or \
                    (isinstance(v, ast.Call) and not v.args and
                     not v.keywords and
                     dotted(v.func) in ('NocaseDict', 'dict', 'list'))
                r4.ob(blank, '%s:%s' % (f.name, norm(n, 70)),
                      {'function': f.name, 'store': norm(n, 70)})
                if not blank:
                    rep.finding(r4, f.qualname, norm(n, 70), 'adds', BASE,
                                n.lineno, 'request-flag processing stores a '
                                'non-empty value into the returned class '
                                '(flags must only remove information)')
            if isinstance(n, ast.Call) and isinstance(n.func, ast.Attribute) \
                    and n.func.attr in ('update', 'append', 'setdefault',
                                        'insert', 'extend', 'add',
                                        '__setitem__'):
                base = n.func.value
                while isinstance(base, (ast.Attribute, ast.Subscript)):
                    base = base.value
                if isinstance(base, ast.Name) and base.id in objnames:
                    r4.ob(False, '%s:%s' % (f.name, norm(n, 70)))
                    rep.finding(r4, f.qualname, norm(n, 70), 'adds', BASE,
                                n.lineno, 'request-flag processing inserts '
                                'into the returned class')
            if isinstance(n, ast.Delete):
                r4.ob(True, '%s:%s' % (f.name, norm(n, 70)),
                      {'function': f.name, 'delete': norm(n, 70)})
    # each flag is connected to its removal
    want = {'include_qualifiers': '_remove_qualifiers',
            'include_classorigin': '_remove_classorigin',
            'property_list': 'filter_properties'}
    for flag, helper in want.items():
        ok = False
        for n in walk_no_nested(gc.node):
            if isinstance(n, ast.If) and flag in norm(n.test) and any(
                    isinstance(c, ast.Call) and
                    dotted(c.func) == 'self.' + helper
                    for s in n.body for c in ast.walk(s)):
                ok = True
            if helper == 'filter_properties' and isinstance(n, ast.Call) and \
                    dotted(n.func) == 'self.filter_properties' and \
                    len(n.args) == 2 and norm(n.args[1]) == flag:
                ok = True
        r4.ob(ok, 'get_class:%s' % flag)
        if not ok:
            rep.finding(r4, gc.qualname, flag, 'flag-unconnected', BASE,
                        gc.node.lineno, '%s does not lead to %s'
                        % (flag, helper))


def _has_fact(facts, text, pol):
    """a fact equivalent to `text` with polarity pol (accepts the negated
    spelling `not text` / `a not in b`)"""
    import re as _re
    for t, p in facts:
        s = _re.sub(r'\b\w+\$', '', norm(t))   # locals of inlined helpers
        if s == text and p == pol:
            return True
        if s == 'not ' + text and p == (not pol):
            return True
        if ' not in ' in text and s == text.replace(' not in ', ' in ') \
                and p == (not pol):
            return True
        if ' not in ' in s and s.replace(' not in ', ' in ') == text and \
                p == (not pol):
            return True
    return False


def inheritance_marks(repo, rep, r6):
    """C12.R6 - propagated / class_origin / qualifier-flavor bookkeeping of
    the class resolver, decided on guard facts."""
    import re as _re
    from ..cfg import stmt_facts
    from ..inline import Flat
    from ..paths import return_paths
    RES = 'pywbem_mock/_resolvermixin.py'
    rm = repo.cls(RES, 'ResolverMixin')
    KEEP = ('_set_new_object', '_resolve_qualifiers', '_init_qualifier',
            '_resolve_objects')
    from ..model import norm as _norm

    def norm(x, n=200):            # pylint: disable=redefined-outer-name
        # names of inlined helpers' locals carry a `helper$` prefix
        return _re.sub(r'\b\w+\$', '', _norm(x, n))

    def need(n):
        f = rm.methods.get(n)
        if f is None:
            raise AnalysisError('ResolverMixin.%s vanished' % n)
        r6.functions.add(f.fq)
        return Flat(f, keep=KEEP)

    def judge(ok, func, construct, fact, line, msg, case=None):
        r6.sites += 1
        r6.ob(ok, '%s|%s|%s' % (func.name, construct, fact), case)
        if not ok:
            rep.finding(r6, func.qualname, construct, fact, RES, line, msg)

    # (a) _set_new_object
    sno = need('_set_new_object')
    facts = stmt_facts(sno.node)
    pi = sno.params.index('propagated')
    ii = sno.params.index('inherited_obj')
    spaths = return_paths(sno.orig, inline=False)
    if spaths is None:
        raise AnalysisError('_set_new_object: too many paths')
    pparam = sno.params[pi]
    bad_prop, bad_inh, bad_new, unguarded = [], [], [], []
    n_inh = n_new = 0
    for sp in spaths:
        # the type parameter stays symbolic
        sp.env = {k: v for k, v in sp.env.items() if k != pparam}
        pa = [e for e in sp.effects if isinstance(e, ast.Assign) and
              _norm(e.targets[0]) == 'new_obj.propagated']
        if not pa or _norm(sp.resolve(pa[-1].value)) != pparam:
            bad_prop.append(sp)
        co_ = [e for e in sp.effects if isinstance(e, ast.Assign) and
               _norm(e.targets[0]) == 'new_obj.class_origin']
        isprop = _has_fact(sp.facts, pparam, True)
        isnew = _has_fact(sp.facts, pparam, False)
        val = _norm(sp.resolve(co_[-1].value)) if co_ else None
        if isprop:
            n_inh += 1
            if val != 'inherited_obj.class_origin':
                bad_inh.append(val)
        elif isnew:
            n_new += 1
            if val != 'new_class.classname':
                bad_new.append(val)
        elif co_:
            unguarded.append(val)
    judge(not bad_prop, sno, 'new_obj.propagated', 'propagated-flag',
          sno.node.lineno, 'the element is not marked with the propagated '
          'flag its caller determined (on %d of %d paths)'
          % (len(bad_prop), len(spaths)), {'paths': len(spaths)})
    judge(n_inh >= 1 and not bad_inh, sno, 'class_origin (inherited)',
          'class-origin', sno.node.lineno,
          'an overriding element must keep the class_origin of the element '
          'it overrides (the ancestor that first introduced it)',
          {'values': bad_inh})
    judge(n_new >= 1 and not bad_new, sno, 'class_origin (new)',
          'class-origin', sno.node.lineno,
          'a newly introduced element must get the new class as '
          'class_origin', {'values': bad_new})
    judge(not unguarded, sno, 'class_origin', 'unguarded',
          sno.node.lineno, 'class_origin is assigned outside the '
          'propagated / not propagated cases')

    # (b) call sites in _resolve_objects
    ro = need('_resolve_objects')
    facts = stmt_facts(ro.node)
    ncalls = 0
    for st, (fs, _) in facts.items():
        if not (isinstance(st, ast.Expr) and isinstance(st.value, ast.Call)
                and dotted(st.value.func) == 'self._set_new_object'):
            continue
        c = st.value
        if len(c.args) <= max(pi, ii) - 1:
            continue
        ncalls += 1
        a_inh, a_prop = norm(c.args[ii - 1]), norm(c.args[pi - 1])
        is_new = _has_fact(fs, 'superclass', False) or \
            _has_fact(fs, 'obj_name not in superclass_objects', True)
        is_override = _has_fact(fs, 'obj_name not in superclass_objects',
                                False)
        if is_new:
            ok = a_inh == 'None' and a_prop == 'False'
        elif is_override:
            ok = a_inh != 'None' and a_prop == 'True'
        else:
            ok = False
        judge(ok, ro, norm(c, 60), 'marks', st.lineno,
              'an element %s must be resolved with inherited_obj %s and '
              'propagated=%s' % (
                  'the superclass does not have' if is_new else
                  'that overrides a superclass element',
                  'None' if is_new else 'set', not is_new),
              {'call': norm(c, 90), 'new_element': is_new,
               'override': is_override})
    if ncalls < 3:
        raise AnalysisError('_resolve_objects: %d _set_new_object calls'
                            % ncalls)
    # (c) elements only the superclass has
    loops = [n for n in walk_no_nested(ro.node) if isinstance(n, ast.For)
             and norm(n.iter) == 'superclass_objects.items()']
    if len(loops) != 1:
        raise AnalysisError('_resolve_objects: loop over superclass_objects '
                            'not found')
    lp = loops[0]
    body = [st for st in ast.walk(lp) if st in facts]
    stores = [st for st in body if isinstance(st, ast.Assign) and
              norm(st.targets[0]).startswith('new_objects[')]
    judge(len(stores) == 1 and _has_fact(
        facts[stores[0]][0], 'obj_name not in new_objects', True), ro,
        'inherit loop', 'only-missing', lp.lineno,
        'superclass elements must be added exactly when the class does not '
        'declare them', {'stores': [norm(s) for s in stores]})
    if stores:
        src = norm(stores[0].value)
        # through locals that only rename the value (the result temporary
        # of an inlined helper)
        for _ in range(4):
            nxt = [st for st in body if isinstance(st, ast.Assign) and
                   norm(st.targets[0]) == src]
            if len(nxt) == 1 and isinstance(nxt[0].value, ast.Name) and \
                    norm(nxt[0].value) != src:
                src = norm(nxt[0].value)
            else:
                break
        defs = [st for st in body if isinstance(st, ast.Assign) and
                norm(st.targets[0]) == src and
                norm(st.value) != src]
        judge(len(defs) == 1 and isinstance(defs[0].value, ast.Call) and
              norm(defs[0].value.func).endswith('.copy'), ro,
              'inherit loop copy', 'copy', lp.lineno,
              'an inherited element must be a copy of the superclass '
              'element (the stored superclass must not be shared)',
              {'def': [norm(d) for d in defs]})
        marks = {norm(st.targets[0]): norm(st.value) for st in body
                 if isinstance(st, ast.Assign) and
                 norm(st.targets[0]).startswith(src + '.')}
        judge(marks.get(src + '.propagated') == 'True', ro,
              'inherit loop propagated', 'propagated', lp.lineno,
              'an element the class does not redeclare must be marked '
              'propagated', {'marks': marks})
        co_ok = marks.get(src + '.class_origin', '').endswith(
            '.class_origin') or (src + '.class_origin') not in marks
        judge(co_ok, ro, 'inherit loop class_origin', 'class-origin',
              lp.lineno, 'an inherited element keeps the class_origin of '
              'the superclass element', {'marks': marks})
        qvars = {norm(n.target) for n in ast.walk(lp)
                 if isinstance(n, ast.For) and n is not lp and
                 isinstance(n.target, ast.Name) and
                 norm(n.iter).startswith(src + '.qualifiers')}
        qmarks = [st for st in body if isinstance(st, ast.Assign) and
                  isinstance(st.targets[0], ast.Attribute) and
                  st.targets[0].attr == 'propagated' and
                  norm(st.targets[0].value) in qvars]
        judge(len(qmarks) == 1 and norm(qmarks[0].value) == 'True', ro,
              'inherit loop qualifiers', 'propagated', lp.lineno,
              'the qualifiers of an inherited element are propagated')

    # (d) qualifier flavors
    rq = need('_resolve_qualifiers')
    facts = stmt_facts(rq.node)
    stmts = list(facts)
    nst = 0
    for st in stmts:
        if not (isinstance(st, ast.Assign) and
                isinstance(st.targets[0], ast.Subscript) and
                norm(st.targets[0].value) == 'new_quals'):
            continue
        nst += 1
        fs = facts[st][0]
        ok = _has_fact(fs, 'inh_qual.tosubclass', True) and \
            _has_fact(fs, 'inh_qname not in new_quals', True) and \
            isinstance(st.value, ast.Call) and \
            norm(st.value.func).endswith('.copy')
        judge(ok, rq, norm(st, 60), 'flavor', st.lineno,
              'an inherited qualifier is added to the subclass element only '
              'if its flavor is ToSubclass and the element does not '
              'declare it, and as a copy',
              {'facts': [(norm(t, 40), p) for t, p in fs]})
    if nst < 2:
        raise AnalysisError('_resolve_qualifiers: qualifier inheritance '
                            'stores not found')
    for st in stmts:
        if isinstance(st, ast.Assign) and \
                norm(st.targets[0]) == 'new_quals[inh_qname].propagated':
            fs = facts[st][0]
            declared = _has_fact(fs, 'inh_qname not in new_quals', False) \
                or _has_fact(fs, 'inh_qname in new_quals', True)
            over = _has_fact(fs, 'inh_qual.overridable', True)
            tosub = _has_fact(fs, 'inh_qual.tosubclass', True)
            want = 'False' if (declared and over and tosub) else 'True'
            if declared and not tosub:
                continue      # restricted flavor: outside this clause
            judge(norm(st.value) == want, rq, norm(st, 60), 'propagated',
                  st.lineno, 'a qualifier the element declares itself '
                  '(overridable, ToSubclass) is not propagated; one that '
                  'is copied from the superclass is',
                  {'declared_by_element': declared, 'expected': want})
    iq = need('_init_qualifier')
    ini = [st for st in walk_no_nested(iq.node) if isinstance(st, ast.Assign)
           and norm(st.targets[0]) == 'qualifier.propagated']
    judge(len(ini) == 1 and norm(ini[0].value) == 'False', iq,
          'qualifier.propagated', 'propagated', iq.node.lineno,
          'a qualifier declared on the element itself is not propagated')


class _BodyFunc:
    """a statement list presented to paths.return_paths as a function"""

    def __init__(self, body, like):
        self.node = ast.FunctionDef(
            name='<body>', args=ast.arguments(
                posonlyargs=[], args=[], kwonlyargs=[], kw_defaults=[],
                defaults=[]), body=list(body), decorator_list=[])
        self.cls = like.cls
        self.module = like.module
        self.name = '<body>'
        self.params = []


def redeclared_flavors(repo, rep):
    """C12.R7: every qualifier object of the new class that stays in the
    resolved element (because the element declares it itself) has its
    flavors filled in from the qualifier declaration, on every path of
    _resolve_qualifiers.  A qualifier an API client builds carries
    tosubclass=None / overridable=None; left like that it is read as
    Restricted one level further down and the grandchild loses it."""
    from ..paths import return_paths
    RES = 'pywbem_mock/_resolvermixin.py'
    rm = repo.cls(RES, 'ResolverMixin')
    rq = rm.methods.get('_resolve_qualifiers')
    if rq is None:
        raise AnalysisError('ResolverMixin._resolve_qualifiers vanished')
    r7 = rep.rule('C12.R7', 'a qualifier redeclared by the element gets its '
                  'flavors from the declaration on every path')
    r7.functions.add(rq.fq)
    ps = [p for p in rq.params if p != 'self']
    newq, inhq = ps[0], ps[1]
    loops = [n for n in walk_no_nested(rq.node) if isinstance(n, ast.For) and
             isinstance(n.iter, ast.Call) and
             norm(n.iter.func) in (inhq + '.items', inhq + '.keys',
                                   inhq + '.values') or
             (isinstance(n, ast.For) and norm(n.iter) == inhq)]
    if len(loops) != 1:
        raise AnalysisError('_resolve_qualifiers: loop over the inherited '
                            'qualifiers not found (%d)' % len(loops))
    lp = loops[0]
    key = lp.target.elts[0].id if isinstance(lp.target, ast.Tuple) else \
        norm(lp.target)
    paths = return_paths(_BodyFunc(lp.body, rq), inline=False)
    if paths is None:
        r7.undecided.append('_resolve_qualifiers: too many paths')
        return
    member = '%s in %s' % (key, newq)
    want = '%s[%s]' % (newq, key)
    for p in paths:
        declared = _has_fact(p.facts, member, True)
        if not declared:
            continue
        r7.sites += 1
        inits = [e for e in p.effects if isinstance(e, ast.Expr) and
                 isinstance(e.value, ast.Call) and
                 (dotted(e.value.func) or '').endswith('_init_qualifier')
                 and e.value.args and norm(e.value.args[0]) == want]
        conds = [('%s%s' % ('' if pol else 'not ', norm(t, 40)))
                 for t, pol in p.facts]
        ok = bool(inits)
        r7.ob(ok, ' / '.join(conds), {'path': conds})
        if not ok:
            last = [e for e in p.effects if hasattr(e, 'lineno')]
            rep.finding(r7, rq.qualname, ' / '.join(conds),
                        'flavors-not-initialised', RES,
                        last[-1].lineno if last else lp.lineno,
                        'on the path [%s] the qualifier the element declares '
                        'itself (%s) stays in the resolved element without '
                        '_init_qualifier(): built by an API client it keeps '
                        'tosubclass=None / overridable=None, which the next '
                        'level reads as Restricted - the grandchild loses a '
                        'ToSubclass qualifier (e.g. Key) in '
                        'GetClass(LocalOnly=False)' % (' / '.join(conds),
                                                       want))
    if r7.sites < 3:
        raise AnalysisError('_resolve_qualifiers: only %d paths with a '
                            'redeclared qualifier' % r7.sites)


def tristate_attrs(repo):
    """names of object-model attributes that hold None / True / False:
    attributes whose setter stores _ensure_bool(value)"""
    out = set()
    for c in repo.module('pywbem/_cim_obj.py').classes.values():
        for f in c.node.body:
            if not isinstance(f, ast.FunctionDef):
                continue
            if any(isinstance(d, ast.Attribute) and d.attr == 'setter'
                   for d in f.decorator_list):
                if any(isinstance(x, ast.Call) and
                       dotted(x.func) == '_ensure_bool'
                       for x in ast.walk(f)):
                    out.add(f.name)
    return out


def flavor_default_rule(repo, rep):
    """C12.R8: a tri-state attribute (None = not specified, True, False) is
    given its default only where it is None.  `if not q.tosubclass:
    q.tosubclass = <declaration>` overwrites an explicit False (Restricted,
    DisableOverride) with the declaration's True, so the qualifier then
    propagates against its flavor."""
    r8 = rep.rule('C12.R8', 'tri-state flavor attributes are defaulted only '
                  'where they are None')
    tri = tristate_attrs(repo)
    if len(tri) < 4:
        raise AnalysisError('tri-state attributes not found: %s' % tri)
    sites = 0
    for rel, m in sorted(repo.modules.items()):
        for f in m.all_funcs():
            for st in walk_no_nested(f.node):
                if not isinstance(st, ast.If):
                    continue
                # a test of the attribute (any form) whose branch assigns it
                tested = [x for x in ast.walk(st.test)
                          if isinstance(x, ast.Attribute) and x.attr in tri
                          and isinstance(x.ctx, ast.Load)]
                for x in tested:
                    tx = norm(x)
                    assigns = [a for b in st.body + st.orelse
                               for a in ast.walk(b)
                               if isinstance(a, ast.Assign) and
                               any(norm(t) == tx for t in a.targets)]
                    if not assigns:
                        continue
                    sites += 1
                    r8.sites += 1
                    r8.functions.add(f.fq)
                    # the attribute occurs in the test only as `x is None`
                    # / `x is not None`
                    ok = True
                    for c in ast.walk(st.test):
                        if isinstance(c, ast.Compare) and \
                                norm(c.left) == tx and len(c.ops) == 1 and \
                                isinstance(c.ops[0], (ast.Is, ast.IsNot)) and \
                                isinstance(c.comparators[0], ast.Constant) \
                                and c.comparators[0].value is None:
                            continue
                    # any occurrence that is not the left side of such a
                    # comparison is a truthiness / value use
                    parents = {}
                    for c in ast.walk(st.test):
                        for ch in ast.iter_child_nodes(c):
                            parents[id(ch)] = c
                    for occ in [y for y in ast.walk(st.test)
                                if isinstance(y, ast.Attribute) and
                                norm(y) == tx]:
                        par = parents.get(id(occ))
                        if not (isinstance(par, ast.Compare) and
                                par.left is occ and len(par.ops) == 1 and
                                isinstance(par.ops[0], (ast.Is, ast.IsNot))
                                and isinstance(par.comparators[0],
                                               ast.Constant) and
                                par.comparators[0].value is None):
                            ok = False
                    r8.ob(ok, '%s|%s' % (f.qualname, norm(st.test, 60)))
                    if not ok:
                        rep.finding(
                            r8, f.qualname, norm(st.test, 60),
                            'truthiness-of-flavor', m.relpath, st.lineno,
                            '%s is None/True/False, and it is (re)assigned '
                            'under a test of its truth value: an explicit '
                            'False (Restricted / DisableOverride / not '
                            'translatable) is replaced by the default, so '
                            'GetClass reports the wrong flavor and the '
                            'qualifier is propagated or overridable against '
                            'its declaration on the element' % tx)
    if sites < 3:
        raise AnalysisError('C12.R8: only %d defaulting sites found' % sites)


def resolve_gets_deep_copy(repo, rep):
    """C12.R9: _resolve_class() completes the class *in place* (inherited
    qualifiers are inserted into the elements, flavors and propagated flags
    are set).  It must therefore be given a deep copy of the caller's
    class: CIMClass.copy() shares the CIMProperty / CIMMethod /
    CIMQualifier objects with the original, so resolution would write into
    the caller's definition, and re-using that definition (another
    namespace, a sibling branch, a second ModifyClass) replays the
    qualifiers of the first hierarchy as if the class declared them."""
    r9 = rep.rule('C12.R9', 'class resolution works on a deep copy of the '
                  'caller\'s class')
    sites = []
    for rel, m in sorted(repo.modules.items()):
        if not m.relpath.startswith('pywbem_mock/'):
            continue
        for f in m.all_funcs():
            for c in walk_no_nested(f.node):
                if isinstance(c, ast.Call) and \
                        (dotted(c.func) or '').endswith('._resolve_class') \
                        and c.args and isinstance(c.args[0], ast.Name):
                    sites.append((m, f, c))
    for m, f, c in sites:
        r9.sites += 1
        r9.functions.add(f.fq)
        var = c.args[0].id
        defs = [n.value for n in walk_no_nested(f.node)
                if isinstance(n, ast.Assign) and any(
                    isinstance(t, ast.Name) and t.id == var
                    for t in n.targets)]
        ok = bool(defs) and all(
            isinstance(d, ast.Call) and
            (dotted(d.func) or '').split('.')[-1] == 'deepcopy'
            for d in defs)
        r9.ob(ok, '%s|%s' % (f.qualname, var),
              {'definitions': [norm(d, 60) for d in defs]})
        if not ok:
            rep.finding(r9, f.qualname, '%s = %s' % (
                var, norm(defs[0], 50) if defs else '(parameter)'),
                'shallow-copy-resolved', m.relpath, c.lineno,
                '%s is resolved in place but is not a deepcopy() of the '
                'caller\'s object (%s): the elements it shares with the '
                'caller\'s class receive the inherited qualifiers, and a '
                'second request with the same Python object stores them as '
                'the class\'s own declarations'
                % (var, [norm(d, 40) for d in defs] or 'passed through'))
    if r9.sites < 3:
        raise AnalysisError('C12.R9: only %d calls of _resolve_class'
                            % r9.sites)


def operation_parameters_are_used(repo, rep, rid, select):
    """Every parameter that an operation of the mock server's main provider
    accepts takes part in what the operation does: it is read somewhere
    other than in a type assertion.  EnumerateClasses that asserts and
    documents IncludeClassOrigin but does not hand it to get_class() falls
    back to get_class()'s default: the flag silently has no effect and the
    class origins are stripped although they were requested, while GetClass
    with the same flags returns them.  (An operation that is a stub - every
    path raises - is exempt.)"""
    from ..cfg import assertion_only, always_exits
    r = rep.rule(rid, 'every parameter of an operation is read outside its '
                 'type assertions')
    mp = repo.cls(MAIN, 'MainProvider')
    n = 0
    for name, f in sorted(mp.methods.items()):
        if not name[0].isupper() or not select(name):
            continue
        if not any(isinstance(x, ast.Return) for x in walk_no_nested(f.node)) \
                and always_exits(f.body):
            continue            # not implemented: only raises
        n += 1
        r.sites += 1
        r.functions.add(f.fq)
        used = set()
        for st in f.body:
            if assertion_only(st):
                continue
            for x in ast.walk(st):
                if isinstance(x, ast.Name) and isinstance(x.ctx, ast.Load):
                    used.add(x.id)
        unused = [p_ for p_ in f.params if p_ != 'self' and p_ not in used]
        r.ob(not unused, name, {'parameters': len(f.params) - 1})
        for p_ in unused:
            rep.finding(r, f.qualname, p_, 'parameter-ignored', MAIN,
                        f.node.lineno,
                        '%s accepts %s but never reads it (outside type '
                        'assertions): the operation behaves as if the '
                        'client had not sent it, unlike its sibling '
                        'operations' % (name, p_))
    if n < 2:
        raise AnalysisError('%s: only %d operations selected' % (rid, n))


def call_sequence(cls, fn, target, depth=0):
    """the self.* calls of a method in source order; a private helper that
    itself makes the `target` call is replaced by its own sequence, a helper
    that only asserts types is left out"""
    from ..cfg import assertion_only
    out = []
    for st_ in fn.body:
        for c_ in ast.walk(st_):
            if not isinstance(c_, ast.Call):
                continue
            d_ = dotted(c_.func) or ''
            if not d_.startswith('self.'):
                continue
            h_ = cls.find_method(d_[5:]) if d_.count('.') == 1 and \
                d_[5:6] == '_' else None
            sub = call_sequence(cls, h_, target, depth + 1) \
                if h_ is not None and h_ is not fn and depth < 2 \
                else []
            if target in sub and d_ != target:
                out += sub
            elif h_ is not None and all(
                    assertion_only(x_) for x_ in h_.body):
                pass        # a helper that only asserts types
            else:
                out.append(d_)
    return out


def namespace_validated_first(repo, rep, rid, select):
    """Every operation of the mock server's main provider that takes a
    namespace validates it (`self.validate_namespace(namespace)`) before it
    touches the repository - as the first call, or directly after the pull
    switch.  An operation that skips it answers for a namespace that does
    not exist (empty result / KeyError) instead of
    CIM_ERR_INVALID_NAMESPACE, unlike all its siblings."""
    r = rep.rule(rid, 'operations validate the namespace before using the '
                 'repository')
    mp = repo.cls(MAIN, 'MainProvider')
    n = 0
    for name, f in sorted(mp.methods.items()):
        if not name[0].isupper() or 'namespace' not in f.params or \
                not select(name):
            continue
        calls = [c for st in f.body for c in ast.walk(st)
                 if isinstance(c, ast.Call) and
                 (dotted(c.func) or '').startswith('self.')]
        uses_repo = any('cimrepository' in (dotted(c.func) or '') or
                        (dotted(c.func) or '').startswith('self._get') or
                        (dotted(c.func) or '') == 'self.get_class' or
                        (dotted(c.func) or '')[5:6].isupper()
                        for c in calls)
        if not uses_repo:
            continue
        n += 1
        r.sites += 1
        r.functions.add(f.fq)
        names = call_sequence(mp, f, 'self.validate_namespace')
        idx = names.index('self.validate_namespace') \
            if 'self.validate_namespace' in names else None
        ok = idx is not None and all(
            x == 'self._validate_pull_operations_enabled'
            for x in names[:idx])
        r.ob(ok, name, {'first_calls': names[:3]})
        if not ok:
            rep.finding(r, f.qualname, 'validate_namespace', 'not-validated',
                        MAIN, f.node.lineno,
                        '%s uses the repository (first calls: %s) without '
                        'validating the namespace first: for a namespace '
                        'that does not exist it does not raise '
                        'CIM_ERR_INVALID_NAMESPACE like its siblings'
                        % (name, names[:3]))
    if n < 2:
        raise AnalysisError('%s: only %d operations selected' % (rid, n))


def memo_stores(func):
    """statements `T[k] = <call>` that run only when `k not in T` holds:
    the fill step of a hand-written memo table"""
    from ..cfg import stmt_facts
    out = []
    for st, (fs, _t) in stmt_facts(func.node).items():
        if not (isinstance(st, ast.Assign) and len(st.targets) == 1 and
                isinstance(st.targets[0], ast.Subscript) and
                isinstance(st.value, ast.Call)):
            continue
        tab, key = norm(st.targets[0].value), norm(st.targets[0].slice)
        for t, pol in fs:
            if isinstance(t, ast.Compare) and len(t.ops) == 1 and \
                    norm(t.left) == key and \
                    norm(t.comparators[0]) == tab and \
                    ((isinstance(t.ops[0], ast.NotIn) and pol) or
                     (isinstance(t.ops[0], ast.In) and not pol)):
                out.append(st)
                break
    return out


def no_memo_tables(repo, rep, rid):
    """C12.R12: the mock server answers from the repository as it is now.
    A table on a provider object that is filled once per key with the result
    of a repository read (`if k not in self.T: self.T[k] = self.get_class(
    ...)`) keeps returning the class as it was when the key was first used:
    after the class is modified, or deleted and created again, new
    subclasses are resolved against the stale copy (inherited elements that
    no ancestor declares, a deleted superclass accepted)."""
    r = rep.rule(rid, 'no per-key memo table is filled from repository reads')
    READS = ('get_class', 'get_instance', 'get_qualifier', '_get_',
             'get_class_store', 'iter_values', 'iter_names', 'object_exists',
             'EnumerateClasses', 'GetClass', 'resolve')
    nfun = 0
    for m in repo.modules.values():
        if not m.relpath.startswith('pywbem_mock/'):
            continue
        for f in m.all_funcs():
            nfun += 1
            for st in memo_stores(f):
                tab = st.targets[0].value
                d = dotted(st.value.func) or norm(st.value.func, 60)
                persistent = isinstance(tab, ast.Attribute) and \
                    isinstance(tab.value, ast.Name) and \
                    tab.value.id in ('self', 'cls')
                reads = any(x in d for x in READS) or \
                    (isinstance(st.value.func, ast.Attribute) and
                     st.value.func.attr == 'get' and
                     'store' in norm(st.value.func.value))
                if not (persistent and reads):
                    continue
                r.sites += 1
                r.functions.add(f.fq)
                r.ob(False, '%s|%s' % (f.qualname, norm(st, 60)))
                rep.finding(r, f.qualname, norm(st, 80), 'memo-table',
                            m.relpath, st.lineno,
                            '%s is filled once per key from %s(): the '
                            'entry outlives later changes of the repository '
                            '(ModifyClass, DeleteClass + CreateClass), so '
                            'objects resolved afterwards are built from a '
                            'stale copy' % (norm(tab), d))
    r.sites += 1
    r.ob(nfun > 200, 'functions-scanned', {'functions': nfun})
    if nfun < 200:
        raise AnalysisError('%s: only %d functions scanned' % (rid, nfun))
    probe = ast.parse('def f(self, k):\n    if k not in self.t:\n'
                      '        self.t[k] = self.get_class(k)\n'
                      '    return self.t[k]\n').body[0]

    class _F:
        node = probe
    if len(memo_stores(_F)) != 1:
        raise AnalysisError(rid + ' recogniser broken')


def inherited_elements_marked_unconditionally(repo, rep):
    """C12.R13: an element that the new class does not redeclare is copied
    from the superclass and marked propagated - the element and every one of
    its qualifiers - whatever the state of the superclass's element.  A
    condition on that state (e.g. `if not obj.propagated:`) skips the
    marking for elements the superclass itself overrides: their qualifiers
    keep propagated=False two levels further down, and the wrong flag is
    stored and handed on to all subclasses."""
    r13 = rep.rule('C12.R13', 'the propagated marking of inherited elements '
                   'depends only on whether the class redeclares them')
    RES = 'pywbem_mock/_resolvermixin.py'
    cls = repo.cls(RES, 'ResolverMixin')
    f = cls.methods.get('_resolve_objects')
    if f is None:
        raise AnalysisError('ResolverMixin._resolve_objects vanished')
    r13.functions.add(f.fq)
    from ..inline import Flat
    f = Flat(f)
    parent = {}
    for n in ast.walk(f.node):
        for c in ast.iter_child_nodes(n):
            parent[c] = n
    # the copies of superclass elements, and the loop variables over their
    # qualifiers
    copies = set()
    for lp in walk_no_nested(f.node):
        if not (isinstance(lp, ast.For) and
                'superclass' in norm(lp.iter, 80)):
            continue
        lvars = {x.id for x in ast.walk(lp.target)
                 if isinstance(x, ast.Name)}
        for n in ast.walk(lp):
            if isinstance(n, ast.Assign) and len(n.targets) == 1 and \
                    isinstance(n.targets[0], ast.Name) and \
                    any(isinstance(x, ast.Name) and x.id in lvars
                        for x in ast.walk(n.value)):
                copies.add(n.targets[0].id)
    qvars = {n.target.id for n in walk_no_nested(f.node)
             if isinstance(n, ast.For) and isinstance(n.target, ast.Name) and
             any(isinstance(x, ast.Attribute) and x.attr == 'qualifiers' and
                 isinstance(x.value, ast.Name) and x.value.id in copies
                 for x in ast.walk(n.iter))}
    marks = [n for n in walk_no_nested(f.node)
             if isinstance(n, ast.Assign) and len(n.targets) == 1 and
             isinstance(n.targets[0], ast.Attribute) and
             n.targets[0].attr == 'propagated' and
             isinstance(n.targets[0].value, ast.Name) and
             n.targets[0].value.id in copies | qvars and
             isinstance(n.value, ast.Constant) and n.value.value is True]
    if len(marks) < 2:
        raise AnalysisError('_resolve_objects: the propagated markings of '
                            'the copied element and its qualifiers were not '
                            'found (%d)' % len(marks))
    for mk in marks:
        r13.sites += 1
        conds = []
        cur = mk
        dead = False
        while cur in parent and parent[cur] is not f.node:
            up = parent[cur]
            if isinstance(up, ast.If):
                # a test that an inlined call made constant (`if not True:`)
                # is no condition: its live branch always runs, its dead
                # branch never does
                try:
                    known = bool(fold_const(up.test))
                except NotConst:
                    known = None
                if known is None:
                    conds.append(up.test)
                elif (cur in up.body) != known:
                    dead = True
            cur = up
        if dead:
            continue
        bad = [t for t in conds
               if not (isinstance(t, ast.Compare) and len(t.ops) == 1 and
                       isinstance(t.ops[0], (ast.In, ast.NotIn))) and
               not (isinstance(t, ast.Name)) and
               not (isinstance(t, ast.UnaryOp) and
                    isinstance(t.operand, ast.Name))]
        r13.ob(not bad, norm(mk, 50),
               {'under': [norm(t, 40) for t in conds]})
        for t in bad[:1]:
            rep.finding(r13, f.qualname, norm(mk, 50) + ' under ' +
                        norm(t, 40), 'conditional-marking', RES, mk.lineno,
                        'the marking %s runs only when %s: inherited '
                        'elements for which that does not hold keep '
                        'propagated=False on themselves or their qualifiers '
                        '(visible from the third level of a hierarchy on)'
                        % (norm(mk, 40), norm(t, 40)))


def new_class_is_stored_whole(repo, rep):
    """C12.R16: CreateClass / ModifyClass resolve and store the class the
    caller handed in - every property, method and qualifier of it.  Which
    elements are inherited is decided by the resolver from the superclass,
    not by flags on the input (a class obtained with GetClass carries
    propagated=True on the elements it *overrides*, too): a provider that
    removes elements from its working copy before resolving it replaces
    the class's own declarations by the ancestor's - the nearest
    declaration no longer wins.  So between the copy of the input and the
    write to the class store nothing is deleted from the copy's element
    dictionaries."""
    r16 = rep.rule('C12.R16', 'CreateClass / ModifyClass remove no element '
                   'from the class they store')
    mp = repo.cls(MAIN, 'MainProvider')
    ELEMS = ('properties', 'methods', 'qualifiers', 'parameters')
    n = 0
    for name in ('CreateClass', 'ModifyClass'):
        f0 = mp.methods.get(name)
        if f0 is None:
            raise AnalysisError('MainProvider.%s vanished' % name)
        # with the private helpers inlined (the resolver stays a call: what
        # it does to the class is the resolution itself)
        from ..inline import Flat
        f = Flat(f0, keep=('_resolve_class', '_resolve_qualifiers',
                           '_resolve_objects'))
        writes = [c for c in walk_no_nested(f.node)
                  if isinstance(c, ast.Call) and
                  isinstance(c.func, ast.Attribute) and
                  c.func.attr in ('create', 'update') and
                  norm(c.func.value).endswith('class_store') and
                  len(c.args) == 2]
        if not writes:
            r16.notes.append('%s: no write to the class store in the method '
                             'or its private helpers; not judged' % name)
            continue
        stored = {norm(c.args[1]) for c in writes}
        n += 1
        r16.sites += 1
        r16.functions.add(f0.fq)
        bad = []
        for st in walk_no_nested(f.node):
            tgt = None
            if isinstance(st, ast.Delete):
                for t in st.targets:
                    if isinstance(t, ast.Subscript):
                        tgt = t.value
            elif isinstance(st, ast.Call) and \
                    isinstance(st.func, ast.Attribute) and \
                    st.func.attr in ('pop', 'popitem', 'clear'):
                tgt = st.func.value
            if isinstance(tgt, ast.Attribute) and tgt.attr in ELEMS and \
                    norm(tgt.value) in stored:
                bad.append(st)
        r16.ob(not bad, name, {'stored': sorted(stored)})
        for st in bad[:2]:
            rep.finding(r16, f.qualname, norm(st, 70), 'element-removed',
                        MAIN, st.lineno,
                        'an element is removed from the class that is about '
                        'to be resolved and stored: what the caller declared '
                        'is replaced by what the superclass declares')


def compiler_names_the_namespace(repo, rep, rid):
    """C12.R17 / C09.R15: the grammar actions of the MOF compiler work on
    `p.parser.handle`, whose class / qualifier operations are implemented
    with `*args, **kwargs` and read the target namespace from
    kwargs['namespace'] only (MOFWBEMConnection, _MockMOFWBEMConnection).
    A namespace passed positionally, or not at all, is silently replaced by
    the connection default: compiling `class A {...}` into root/other when
    A exists there modifies A in the *default* namespace.  Deviant-sibling
    rule: every class / qualifier operation called on the handle names the
    namespace by keyword, as 11 of the 13 call sites do."""
    r = rep.rule(rid, 'class and qualifier operations of the MOF compiler '
                 'pass the target namespace by keyword')
    MOF = 'pywbem/_mof_compiler.py'
    OPS_ = ('CreateClass', 'ModifyClass', 'GetClass', 'DeleteClass',
            'SetQualifier', 'DeleteQualifier', 'GetQualifier',
            'EnumerateQualifiers', 'CreateInstance')
    n = 0
    for f in repo.module(MOF).all_funcs():
        if not f.name.startswith('p_'):
            continue
        for c in walk_no_nested(f.node):
            if not (isinstance(c, ast.Call) and
                    isinstance(c.func, ast.Attribute) and
                    c.func.attr in OPS_ and
                    norm(c.func.value) == 'p.parser.handle'):
                continue
            n += 1
            r.sites += 1
            r.functions.add(f.fq)
            kw = any(k.arg == 'namespace' for k in c.keywords)
            ok = kw and len(c.args) <= 1
            r.ob(ok, '%s|%s' % (f.qualname, norm(c, 60)))
            if not ok:
                rep.finding(r, f.qualname, norm(c, 70),
                            'namespace-not-by-keyword', MOF, c.lineno,
                            '%s() is called on the compiler handle %s: the '
                            'handle implementations read only '
                            'kwargs["namespace"], so the operation goes to '
                            'the default namespace instead of the one being '
                            'compiled into'
                            % (c.func.attr,
                               'with the namespace as a positional argument'
                               if len(c.args) > 1 else
                               'without a namespace'))
    if n < 8:
        raise AnalysisError('%s: only %d handle operations found' % (rid, n))
