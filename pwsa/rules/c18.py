"""C18 - the subscription manager owns exactly what it created."""
import ast
import re

from ..model import (AnalysisError, walk_no_nested, dotted, norm, const_str,
                     fold_const, NotConst)
from ..cfg import CFG, always_exits, GuardWalker
from .. import names

EXPLANATION = (
    "Static ownership/pairing check of WBEMSubscriptionManager: (R1) every "
    "regular expression built by formatting a non-constant component (the "
    "manager id, the client host) passes that component through re.escape; "
    "(R2) in _create_destination/_create_filter/_create_subscription the "
    "append to the owned list is dominated by the successful CreateInstance "
    "(CFG) and guarded by `owned`, in remove_* the owned-list pruning "
    "follows DeleteInstance of the same path, remove_server deletes only "
    "paths taken from the three owned lists and drops each from its list; "
    "(R3) remove_filter/remove_destinations raise when ReferenceNames(path, "
    "ResultClass=<subscription class>) is non-empty, on every path before "
    "DeleteInstance; add_subscriptions refuses owned=False on an owned "
    "filter/destination before creating anything; (R4) the format strings "
    "that build Name and the discovery patterns have the same literal "
    "skeleton (prefix, separators, field count) and the manager id is "
    "validated to exclude ':' in __init__; (R5) the mock-side subscription "
    "providers compare names case-insensitively and call what they compare. "
    "Does not decide list/server agreement over arbitrary call histories.")
ASSUMPTIONS = [
    "re.escape makes any text match only itself",
    "WBEMConnection operations either succeed or raise (no partial effect)",
]

SM = 'pywbem/_subscription_manager.py'
SP = 'pywbem_mock/_subscriptionproviders.py'
RE_FUNCS = {'re.compile', 're.match', 're.search', 're.fullmatch',
            're.findall', 're.finditer', 're.sub', 're.split'}


def format_parts(node):
    """(format_string, [arg nodes]) if node builds a string by formatting,
    else None."""
    if isinstance(node, ast.Call):
        d = dotted(node.func)
        if d in ('_format', 'format') and node.args and \
                const_str(node.args[0]) is not None:
            return const_str(node.args[0]), list(node.args[1:]) + \
                [k.value for k in node.keywords]
        if isinstance(node.func, ast.Attribute) and \
                node.func.attr == 'format' and \
                const_str(node.func.value) is not None:
            return const_str(node.func.value), list(node.args) + \
                [k.value for k in node.keywords]
    if isinstance(node, ast.JoinedStr):
        fmt = ''
        args = []
        for v in node.values:
            if isinstance(v, ast.Constant):
                fmt += str(v.value)
            else:
                fmt += '{%d}' % len(args)
                args.append(v.value)
        return fmt, args
    if isinstance(node, ast.BinOp) and isinstance(node.op, ast.Mod) and \
            const_str(node.left) is not None:
        r = node.right
        return const_str(node.left), (list(r.elts) if isinstance(r, ast.Tuple)
                                      else [r])
    if isinstance(node, ast.BinOp) and isinstance(node.op, ast.Add):
        parts = []

        def flat(n):
            if isinstance(n, ast.BinOp) and isinstance(n.op, ast.Add):
                flat(n.left)
                flat(n.right)
            else:
                parts.append(n)
        flat(node)
        fmt, args = '', []
        for p in parts:
            if const_str(p) is not None:
                fmt += const_str(p)
            else:
                fmt += '{%d}' % len(args)
                args.append(p)
        if args:
            return fmt, args
    return None


def is_escaped(arg):
    return isinstance(arg, ast.Call) and dotted(arg.func) == 're.escape'


def skeleton(fmt):
    """literal skeleton of a format string / pattern: fields -> '*'"""
    s = re.sub(r'\{[^{}]*\}', '*', fmt)
    s = s.replace('[^:]*', '*')
    return s.strip('^$')


def pattern_sites(repo, relpath):
    """[(func, call, fmtstring, args)] for regex calls whose pattern is
    formatted with non-constant parts."""
    out = []
    m = repo.module(relpath)
    for f in m.all_funcs():
        local = {}
        for n in walk_no_nested(f.node):
            if isinstance(n, ast.Assign) and len(n.targets) == 1 and \
                    isinstance(n.targets[0], ast.Name):
                local[n.targets[0].id] = n.value
        for n in walk_no_nested(f.node):
            if isinstance(n, ast.Call) and dotted(n.func) in RE_FUNCS and \
                    n.args:
                pat = n.args[0]
                if isinstance(pat, ast.Name) and pat.id in local:
                    pat = local[pat.id]
                    if isinstance(pat, ast.Call) and \
                            dotted(pat.func) == 're.compile':
                        continue     # judged at the compile site
                fp = format_parts(pat)
                if fp is None:
                    continue
                fmt, args = fp
                dyn = []
                for a in args:
                    try:
                        fold_const(a)
                    except NotConst:
                        dyn.append(a)
                if dyn:
                    out.append((f, n, fmt, dyn))
    return out


def run(repo, rep, tier):
    r1 = rep.rule('C18.R1', 'no pattern injection (re.escape on '
                  'interpolated text)')
    r2 = rep.rule('C18.R2', 'owned lists follow server state')
    r3 = rep.rule('C18.R3', 'guards before delete / create')
    r4 = rep.rule('C18.R4', 'name construction and recognition agree')
    r5 = rep.rule('C18.R5', 'mock providers compare names '
                  'case-insensitively')
    r5b = rep.rule('C18.R5b', 'no uncalled string method in a comparison')

    mgr = repo.cls(SM, 'WBEMSubscriptionManager')
    recursion_forwards_parameters(repo, rep)
    owned_only_after_create(repo, rep)
    values_compared_exactly(repo, rep)
    manager_id_stored_as_given(repo, rep)
    server_refuses_referenced_delete(repo, rep)
    context_exit_always_cleans_up(repo, rep)
    ownership_lists_are_not_handed_out(repo, rep)

    # ---- R1 ---------------------------------------------------------------
    sites = pattern_sites(repo, SM)
    for f, call, fmt, dyn in sites:
        r1.sites += 1
        r1.functions.add(f.fq)
        for a in dyn:
            ok = is_escaped(a)
            r1.ob(ok, '%s|%s|%s' % (f.qualname, fmt, norm(a)),
                  {'function': f.qualname, 'pattern': fmt,
                   'component': norm(a), 're.escape': ok})
            if not ok:
                rep.finding(r1, f.qualname, '%s <- %s' % (fmt, norm(a)),
                            'unescaped', SM, call.lineno,
                            'regular expression is built from %s without '
                            're.escape: an id such as "a.c" also claims '
                            'names containing "abc"' % norm(a))
    if tier == 'thorough':
        wide = rep.rule('C18.R1w', 'repo-wide survey of formatted patterns '
                        '(informational)')
        for m in repo.modules.values():
            if m.relpath == SM or m.relpath.startswith('pywbem/_vendor'):
                continue
            for f, call, fmt, dyn in pattern_sites(repo, m.relpath):
                wide.sites += 1
                for a in dyn:
                    wide.ob(is_escaped(a), '%s|%s' % (f.fq, fmt))
                    if not is_escaped(a):
                        wide.notes.append('%s:%s %s <- %s' % (
                            m.relpath, call.lineno, fmt, norm(a)))

    # ---- R4 ---------------------------------------------------------------
    builders = {}
    for cname in ('_create_destination', '_create_filter'):
        f = mgr.methods.get(cname)
        if f is None:
            raise AnalysisError('WBEMSubscriptionManager.%s vanished'
                                % cname)
        # the expression(s) that reach `<inst>['Name'] = ...`, through
        # local re-bindings
        work = [n.value for n in walk_no_nested(f.node)
                if isinstance(n, ast.Assign) and len(n.targets) == 1 and
                isinstance(n.targets[0], ast.Subscript) and
                const_str(n.targets[0].slice) == 'Name']
        seen_names = set()
        while work:
            e = work.pop()
            fp = format_parts(e)
            if fp:
                builders[cname] = (fp[0], fp[1], e)
                continue
            if isinstance(e, ast.IfExp):
                work += [e.body, e.orelse]
            if isinstance(e, ast.Name) and e.id not in seen_names:
                seen_names.add(e.id)
                work += [n.value for n in walk_no_nested(f.node)
                         if isinstance(n, ast.Assign) and
                         len(n.targets) == 1 and
                         norm(n.targets[0]) == e.id]
    adds = mgr.methods.get('add_server')
    if adds is None:
        raise AnalysisError('add_server vanished')
    pats = [fmt for f, call, fmt, dyn in sites if f is adds]
    for cname, (fmt, args, node) in builders.items():
        r4.sites += 1
        sk = skeleton(fmt)
        match = [p for p in pats if skeleton(p) == sk]
        ok = bool(match)
        r4.ob(ok, cname + ':skeleton', {'builder': fmt, 'skeleton': sk,
                                        'patterns': pats})
        if not ok:
            rep.finding(r4, mgr.name + '.' + cname, fmt, 'skeleton', SM,
                        node.lineno, 'no discovery pattern in add_server has '
                        'the literal skeleton %r of the Name this function '
                        'builds: a restarted manager does not rediscover its '
                        'instances' % sk)
        first = args[0] if args else None
        bf = mgr.methods[cname]
        for _ in range(4):
            # a local that only ever holds one value stands for that value
            if not isinstance(first, ast.Name):
                break
            defs = [n.value for n in walk_no_nested(bf.node)
                    if isinstance(n, ast.Assign) and len(n.targets) == 1 and
                    norm(n.targets[0]) == first.id]
            if len(defs) != 1 or first.id in bf.params:
                break
            first = defs[0]
        ok = first is not None and \
            norm(first) == 'self._subscription_manager_id'
        r4.ob(ok, cname + ':id-first')
        if not ok:
            rep.finding(r4, mgr.name + '.' + cname, fmt, 'id-field', SM,
                        node.lineno, 'first field of the name is not the '
                        'subscription manager id')
    if len(builders) != 2:
        raise AnalysisError('Name builders not found in _create_destination/'
                            '_create_filter')
    init = mgr.methods['__init__']
    # every way through the constructor (its private helpers inlined) that
    # returns has established that the id does not contain the separator
    from ..inline import Flat as _Flat
    from ..paths import return_paths as _rp
    from ..cfg import GuardWalker as _GW
    pid = next((p_ for p_ in init.params
                if p_ != 'self' and 'id' in p_.lower()), None)
    if pid is None:
        raise AnalysisError('WBEMSubscriptionManager.__init__: manager id '
                            'parameter not found')
    ipaths = _rp(_Flat(init), max_paths=200)
    if not ipaths:
        raise AnalysisError('WBEMSubscriptionManager.__init__: paths not '
                            'enumerable')

    def excludes_colon(p_):
        for t0, p0 in p_.facts:
            for t, pol in _GW._atoms(t0, p0):
                if isinstance(t, ast.Compare) and len(t.ops) == 1 and \
                        const_str(t.left) == ':' and \
                        norm(t.comparators[0]) == pid and (
                            (isinstance(t.ops[0], ast.In) and not pol) or
                            (isinstance(t.ops[0], ast.NotIn) and pol)):
                    return True
        return False
    ok = all(excludes_colon(p_) for p_ in ipaths)
    r4.ob(ok, '__init__:colon')
    if not ok:
        rep.finding(r4, init.qualname, "':' in subscription_manager_id",
                    'colon-check', SM, init.node.lineno,
                    'the manager id is not rejected when it contains the '
                    'field separator ":"')
    # the second field of an owned Name (filter_id / destination_id) is put
    # between the same separators: every way through the public method that
    # reaches the creation has rejected a ':' in it (or has no id at all -
    # the permanent case, where the caller gives the whole name).  The two
    # adders are siblings; a check that only one of them has is the defect
    # (an owned destination 'a:b' is created as pywbemdestination:<mgr>:a:b
    # and not recognised by the discovery pattern of add_server()).
    for pub, helper in (('add_filter', '_create_filter'),
                        ('add_destination', '_create_destination')):
        pf = mgr.methods.get(pub)
        if pf is None:
            raise AnalysisError('WBEMSubscriptionManager.%s vanished' % pub)
        idp = next((p_ for p_ in pf.params
                    if p_.endswith('_id') and p_ != 'server_id'), None)
        if idp is None:
            raise AnalysisError('%s: id parameter not found' % pub)
        r4.sites += 1
        r4.functions.add(pf.fq)
        ppaths = _rp(_Flat(pf), max_paths=400)
        if not ppaths:
            raise AnalysisError('%s: paths not enumerable' % pub)

        def id_safe(p_):
            for t0, p0 in p_.facts:
                for t, pol in _GW._atoms(t0, p0):
                    if isinstance(t, ast.Compare) and len(t.ops) == 1:
                        if const_str(t.left) == ':' and \
                                norm(t.comparators[0]) == idp and (
                                    (isinstance(t.ops[0], ast.In) and
                                     not pol) or
                                    (isinstance(t.ops[0], ast.NotIn) and
                                     pol)):
                            return True
                        if norm(t.left) == idp and \
                                isinstance(t.comparators[0], ast.Constant) \
                                and t.comparators[0].value is None and (
                                    (isinstance(t.ops[0], ast.Is) and pol) or
                                    (isinstance(t.ops[0], ast.IsNot) and
                                     not pol)):
                            return True
            return False
        # (every way through the method that returns has created the
        # instance)
        reach = list(ppaths)
        ok = bool(reach) and all(id_safe(p_) for p_ in reach)
        r4.ob(ok, pub + ':colon', {'id_parameter': idp,
                                   'paths_to_creation': len(reach)})
        if not ok:
            rep.finding(r4, pf.qualname, "':' in %s" % idp, 'colon-check',
                        SM, pf.node.lineno,
                        '%s reaches %s() with an id that may contain the '
                        'field separator ":": the owned instance gets a Name '
                        'with an extra field, which the discovery pattern of '
                        'add_server() does not recognise - a restarted '
                        'manager does not find (and never removes) it'
                        % (pub, helper))

    # ---- R2 ---------------------------------------------------------------
    lists = {'_create_destination': 'self._owned_destinations',
             '_create_filter': 'self._owned_filters',
             '_create_subscription': 'self._owned_subscriptions'}
    for cname, lst in lists.items():
        f = mgr.methods.get(cname)
        if f is None:
            raise AnalysisError(cname + ' vanished')
        r2.sites += 1
        r2.functions.add(f.fq)
        cfg = CFG(f.node)
        creates = [s for s in cfg.stmts() if not isinstance(
            s, (ast.If, ast.For, ast.While, ast.Try, ast.With)) and any(
            isinstance(c, ast.Call) and
            dotted(c.func) == 'server.conn.CreateInstance'
            for c in ast.walk(s))]
        al_ = owned_aliases(f)
        appends = [s for s in cfg.stmts() if isinstance(s, ast.Expr) and
                   isinstance(s.value, ast.Call) and
                   isinstance(s.value.func, ast.Attribute) and
                   s.value.func.attr == 'append' and
                   (norm(s.value.func.value).startswith(lst) or
                    al_.get(norm(s.value.func.value), '').startswith(lst))]
        ok = bool(appends) and bool(creates)
        for a in appends:
            dom = any(cfg.dominates(c, a) for c in creates)
            r2.ob(dom, '%s:append-after-create' % cname,
                  {'function': cname, 'append': norm(a),
                   'dominated_by_CreateInstance': dom})
            if not dom:
                rep.finding(r2, f.qualname, norm(a), 'append-before-create',
                            SM, a.lineno, 'instance is recorded as owned on '
                            'a path where CreateInstance has not succeeded')
        if not ok:
            rep.finding(r2, f.qualname, lst + '.append', 'no-append', SM,
                        f.node.lineno, 'created instance is never recorded '
                        'in %s' % lst)
        # guarded by owned
        from ..cfg import stmt_facts
        facts = stmt_facts(f.node)
        for a in appends:
            fs = facts.get(a, ((), ()))[0]
            g = any(pol and norm(t) == 'owned' for t, pol in fs)
            r2.ob(g, '%s:append-owned' % cname)
            if not g:
                rep.finding(r2, f.qualname, norm(a), 'append-unguarded', SM,
                            a.lineno, 'a permanent (not owned) instance is '
                            'recorded in the owned list')
        # every CreateInstance under `owned` is followed by an append
        for c in creates:
            fs = facts.get(c, ((), ()))[0]
            under_owned = any(pol and norm(t) == 'owned' for t, pol in fs)
            not_owned = any((not pol) and norm(t) == 'owned' for t, pol in fs)
            if not_owned:
                continue
            # some append must be reachable on every path from c to EXIT
            # unless `owned` is false: check append post-dominates under
            # the owned guard
            reach = cfg.path_avoiding(
                c, cfg.EXIT, lambda n: n in appends,
                lambda a, b, labs: isinstance(a, ast.If) and
                len(labs) == 1 and list(labs)[0] in (True, False) and
                any(norm(t_) == 'owned' and not pol_
                    for t_, pol_ in GuardWalker._atoms(a.test,
                                                       list(labs)[0])))
            ok = reach is None
            r2.ob(ok, '%s:create-then-append' % cname)
            if not ok:
                rep.finding(r2, f.qualname, norm(c, 80), 'create-no-append',
                            SM, c.lineno, 'an owned instance can be created '
                            'without being recorded in the owned list (it '
                            'would never be cleaned up)')
    removers = {'remove_destinations': ('self._owned_destinations',
                                        'dest_path'),
                'remove_filter': ('self._owned_filters', 'filter_path'),
                'remove_subscriptions': ('self._owned_subscriptions',
                                         'sub_path')}
    for rname, (lst, pvar) in removers.items():
        f = mgr.methods.get(rname)
        if f is None:
            raise AnalysisError(rname + ' vanished')
        r2.sites += 1
        r2.functions.add(f.fq)
        # judged with private helpers inlined (keeping the self-recursive
        # call for list arguments)
        from ..inline import Flat as _FlatR
        f = _FlatR(f, keep=(rname,), aliases=False)
        cfg = CFG(f.node)
        dels = [s for s in cfg.stmts() if isinstance(s, (ast.Expr,
                                                          ast.Assign)) and
                isinstance(s.value, ast.Call) and
                (dotted(s.value.func) or '').endswith('.DeleteInstance')]
        # the deleted path: the variable of the table, or whatever name the
        # code gives to (an alias of) the path parameter
        from ..flow import value_of as _vo2
        if len(dels) == 1 and dels[0].value.args:
            d_arg = dels[0].value.args[0]
            if norm(d_arg) != pvar and \
                    norm(_vo2(f, d_arg)) in (f.params or ()):
                pvar = norm(d_arg)
        # names bound to the owned list of this kind
        aliases = {lst}
        for s_ in cfg.stmts():
            if isinstance(s_, ast.Assign) and len(s_.targets) == 1 and \
                    isinstance(s_.targets[0], ast.Name) and \
                    norm(s_.value).startswith(lst):
                aliases.add(s_.targets[0].id)

        def is_list(e):
            return norm(e) in aliases or norm(e).startswith(lst)

        def names_path(e):
            """the expression is `<x>.path`"""
            return isinstance(e, ast.Attribute) and e.attr == 'path'

        def selects(cmp_, eq):
            """the comparison relates an entry's .path to the deleted path
            with == (eq True) or != (eq False)"""
            if not (isinstance(cmp_, ast.Compare) and len(cmp_.ops) == 1):
                return False
            if not isinstance(cmp_.ops[0], ast.Eq if eq else ast.NotEq):
                return False
            l_, r_ = cmp_.left, cmp_.comparators[0]

            def is_p(e):
                return norm(e) == pvar or norm(_vo2(f, e)) == pvar
            return (names_path(l_) and is_p(r_)) or \
                (names_path(r_) and is_p(l_))
        sfacts = stmt_facts(f.node)
        prune = []          # (stmt, selected by the deleted path?)
        for s_ in cfg.stmts():
            if isinstance(s_, ast.Delete) and \
                    isinstance(s_.targets[0], ast.Subscript) and \
                    is_list(s_.targets[0].value) and \
                    not isinstance(s_.targets[0].slice, ast.Constant):
                fs = sfacts.get(s_, ((), ()))[0]
                prune.append((s_, any(pol and selects(t, True)
                                      for t, pol in fs)))
            elif isinstance(s_, ast.Assign) and len(s_.targets) == 1 and \
                    isinstance(s_.value, ast.ListComp) and \
                    ((isinstance(s_.targets[0], ast.Subscript) and
                      isinstance(s_.targets[0].slice, ast.Slice) and
                      is_list(s_.targets[0].value)) or
                     norm(s_.targets[0]).startswith(lst)):
                comp = s_.value
                g = comp.generators[0]
                prune.append((s_, len(comp.generators) == 1 and
                              is_list(g.iter) and
                              norm(comp.elt) == norm(g.target) and
                              len(g.ifs) == 1 and selects(g.ifs[0], False)))
            elif isinstance(s_, ast.Expr) and \
                    isinstance(s_.value, ast.Call) and \
                    isinstance(s_.value.func, ast.Attribute) and \
                    s_.value.func.attr in ('remove', 'pop') and \
                    is_list(s_.value.func.value):
                fs = sfacts.get(s_, ((), ()))[0]
                prune.append((s_, any(pol and selects(t, True)
                                      for t, pol in fs)))
        ok = len(dels) == 1 and norm(dels[0].value.args[0]) == pvar and \
            bool(prune) and \
            all(cfg.dominates(dels[0], p_) for p_, _g in prune)
        cond_ok = bool(prune) and all(g_ for _p, g_ in prune)
        # one prune per deleted path: every loop around the DeleteInstance
        # call (a loop over the paths to delete) is also around the prune
        loops_of = {}

        def nest(stmts, stack):
            for st_ in stmts:
                loops_of[st_] = tuple(stack)
                inner = stack + [st_] if isinstance(
                    st_, (ast.For, ast.While)) else stack
                for fld in ('body', 'orelse', 'finalbody'):
                    sub = getattr(st_, fld, None)
                    if isinstance(sub, list) and sub and \
                            isinstance(sub[0], ast.stmt):
                        nest(sub, inner)
                for h_ in getattr(st_, 'handlers', []):
                    nest(h_.body, inner)
        nest(f.body, [])
        same_loops = bool(dels) and all(
            set(loops_of.get(dels[0], ())) <= set(loops_of.get(p_, ()))
            for p_, _g in prune)
        cond_ok = cond_ok and same_loops
        r2.ob(ok and cond_ok, rname + ':delete-then-prune',
              {'function': rname, 'delete': norm(dels[0]) if dels else None,
               'prune_guard': '<entry>.path == ' + pvar,
               'prune_statements': [norm(p_, 50) for p_, _g in prune]})
        if not (ok and cond_ok):
            rep.finding(r2, f.qualname, 'DeleteInstance / prune',
                        'delete-prune', SM, f.node.lineno,
                        'the owned list is not pruned of exactly the deleted '
                        'path after DeleteInstance succeeded')
    rs = mgr.methods.get('remove_server')
    if rs is None:
        raise AnalysisError('remove_server vanished')
    r2.sites += 1
    r2.functions.add(rs.fq)
    # Which lists are drained through DeleteInstance, in which order?  The
    # deleted path must be `<elem>.path` with <elem> an element of a list
    # that resolves (through local aliases and the parameters of helper
    # methods) to one of the three owned lists.
    OWNED = ['self._owned_subscriptions[server_id]',
             'self._owned_filters[server_id]',
             'self._owned_destinations[server_id]']

    def resolve_list(e, f, bind):
        for _ in range(4):
            if isinstance(e, ast.Name):
                if e.id in bind:
                    return bind[e.id]
                defs = [n.value for n in walk_no_nested(f.node)
                        if isinstance(n, ast.Assign) and
                        len(n.targets) == 1 and
                        norm(n.targets[0]) == e.id]
                if len(defs) >= 1 and all(norm(d) == norm(defs[0])
                                          for d in defs):
                    e = defs[0]
                    continue
                if defs:
                    return [norm(d) for d in defs]
            break
        return norm(e)

    def drained(f, bind, depth=0):
        out = []
        calls = [n for n in walk_no_nested(f.node) if isinstance(n, ast.Call)]
        calls.sort(key=lambda c: (c.lineno, c.col_offset))
        for c in calls:
            d = dotted(c.func) or ''
            if d.endswith('.DeleteInstance') and c.args:
                a = c.args[0]
                src = None
                if isinstance(a, ast.Attribute) and a.attr == 'path' and \
                        isinstance(a.value, ast.Name):
                    ev = a.value.id
                    for n in walk_no_nested(f.node):
                        if isinstance(n, ast.Assign) and \
                                norm(n.targets[0]) == ev and \
                                isinstance(n.value, ast.Subscript):
                            src = resolve_list(n.value.value, f, bind)
                        elif isinstance(n, ast.For) and \
                                norm(n.target) == ev:
                            it = n.iter
                            if isinstance(it, ast.Call) and it.args and \
                                    dotted(it.func) in ('list', 'reversed',
                                                        'tuple'):
                                it = it.args[0]
                            src = resolve_list(it, f, bind)
                elif isinstance(a, ast.Attribute) and a.attr == 'path' and \
                        isinstance(a.value, ast.Subscript):
                    # DeleteInstance(lst[i].path): an element of the list
                    src = resolve_list(a.value.value, f, bind)
                elif isinstance(a, ast.Attribute) and a.attr == 'path' and \
                        isinstance(a.value, ast.Call) and \
                        isinstance(a.value.func, ast.Attribute) and \
                        a.value.func.attr == 'pop':
                    src = resolve_list(a.value.func.value, f, bind)
                out.append((src, c, f))
            elif d.startswith('self.') and d.count('.') == 1 and depth < 2:
                m = mgr.methods.get(d[5:])
                if m is not None and m is not f:
                    ps = [p_ for p_ in m.params if p_ not in ('self', 'cls')]
                    b2 = {}
                    for p_, a in zip(ps, c.args):
                        b2[p_] = resolve_list(a, f, bind)
                    for k in c.keywords:
                        if k.arg:
                            b2[k.arg] = resolve_list(k.value, f, bind)
                    out += drained(m, b2, depth + 1)
        return out
    dl = drained(rs, {})
    flat = []
    for src, c, f_ in dl:
        if isinstance(src, list):
            flat += src
        else:
            flat.append(src)
    order = list(dict.fromkeys(flat))
    ok = bool(dl) and set(order) == set(OWNED) and order[0] == OWNED[0]
    srcs = order
    r2.ob(ok, 'remove_server:only-owned', {'deletes_from': srcs})
    if not ok:
        rep.finding(r2, rs.qualname, 'DeleteInstance(inst.path)',
                    'remove-server', SM, rs.node.lineno,
                    'remove_server does not delete exactly the instances of '
                    'the three owned lists (subscriptions first): it deletes '
                    'elements of %s' % order)

    # ---- R2c: what a _create_* function returns is this manager's own ----
    # Under `owned`, a returned instance either was just created (and is
    # appended to the owned list) or is taken from the owned list; a loop
    # variable over the server-wide enumeration must never be returned (it
    # may belong to another manager or be a permanent instance).
    for cname, lst in lists.items():
        f = mgr.methods[cname]
        server_lists = set()
        for n in walk_no_nested(f.node):
            if isinstance(n, ast.Assign) and len(n.targets) == 1 and \
                    isinstance(n.targets[0], ast.Name) and \
                    isinstance(n.value, ast.Call) and \
                    (dotted(n.value.func) or '').split('.')[-1] in (
                        'EnumerateInstances', 'EnumerateInstanceNames',
                        'Associators', 'References', 'ExecQuery'):
                server_lists.add(n.targets[0].id)
        loopvars = {}
        for n in walk_no_nested(f.node):
            if isinstance(n, ast.For) and isinstance(n.target, ast.Name):
                loopvars.setdefault(n.target.id, []).append(n)
        for ret in [n for n in walk_no_nested(f.node)
                    if isinstance(n, ast.Return) and n.value is not None]:
            if not isinstance(ret.value, ast.Name):
                continue
            v = ret.value.id
            encl = [lp for lp in loopvars.get(v, [])
                    if any(x is ret for x in ast.walk(lp))]
            if not encl:
                continue
            r2.sites += 1
            src = norm(encl[-1].iter)
            ok = src.startswith(lst)
            foreign = isinstance(encl[-1].iter, ast.Name) and \
                encl[-1].iter.id in server_lists
            r2.ob(ok, '%s:return-origin' % cname,
                  {'function': cname, 'returns': v, 'iterates': src,
                   'owned_list': lst})
            if not ok:
                rep.finding(r2, f.qualname, 'return %s' % v,
                            'foreign-instance-returned', SM, ret.lineno,
                            'the reuse lookup returns an element of %s%s '
                            'instead of %s: an instance owned by another '
                            'subscription manager (or a permanent one) is '
                            'handed out and used as if this manager owned it'
                            % (src, ' (the server-wide enumeration)'
                               if foreign else '', lst))
    # ---- R7: subscription ends are matched with objects of their own kind --
    # CIM_IndicationSubscription.Filter references an indication filter,
    # .Handler a listener destination (DSP1054).  A lookup of one end in the
    # collection of the other kind can never match (or matches the wrong
    # thing): rediscovery then misses owned subscriptions.
    r7 = rep.rule('C18.R7', 'Filter / Handler ends are compared with filter / '
                  'destination objects respectively')
    END_KIND = {'Filter': 'filter', 'Handler': 'destination'}

    def kind_of(e, f, depth=0):
        if depth > 4 or e is None:
            return None
        if isinstance(e, ast.Subscript) and const_str(e.slice) in END_KIND:
            return END_KIND[const_str(e.slice)]
        txt = norm(e, 300)
        if '_owned_filters' in txt or 'FILTER_CLASSNAME' in txt:
            return 'filter'
        if '_owned_destinations' in txt or 'DESTINATION_CLASSNAME' in txt:
            return 'destination'
        if isinstance(e, (ast.ListComp, ast.GeneratorExp)):
            k = kind_of(e.generators[0].iter, f, depth + 1)
            return k
        if isinstance(e, ast.Attribute) and e.attr == 'path':
            return kind_of(e.value, f, depth + 1)
        if isinstance(e, ast.Name):
            kinds = set()
            for n in walk_no_nested(f.node):
                if isinstance(n, ast.Assign) and any(
                        isinstance(t, ast.Name) and t.id == e.id
                        for t in n.targets):
                    kinds.add(kind_of(n.value, f, depth + 1))
                elif isinstance(n, (ast.For, ast.comprehension)) and \
                        isinstance(n.target, ast.Name) and \
                        n.target.id == e.id:
                    kinds.add(kind_of(n.iter, f, depth + 1))
            kinds.discard(None)
            if len(kinds) == 1:
                return kinds.pop()
            if not kinds and e.id in f.params:
                low = e.id.lower()
                if 'filter' in low and 'dest' not in low:
                    return 'filter'
                if 'dest' in low and 'filter' not in low:
                    return 'destination'
        return None

    for f in mgr.methods.values():
        for n in walk_no_nested(f.node):
            pairs = []
            if isinstance(n, ast.Compare) and len(n.ops) == 1 and \
                    isinstance(n.ops[0], (ast.In, ast.NotIn, ast.Eq,
                                          ast.NotEq)):
                pairs.append((n.left, n.comparators[0], n))
            elif isinstance(n, ast.Assign) and len(n.targets) == 1 and \
                    isinstance(n.targets[0], ast.Subscript) and \
                    const_str(n.targets[0].slice) in END_KIND:
                pairs.append((n.targets[0], n.value, n))
            for a, b, node in pairs:
                ends = [x for x in (a, b) if isinstance(x, ast.Subscript) and
                        const_str(x.slice) in END_KIND]
                if not ends:
                    continue
                ka, kb = kind_of(a, f), kind_of(b, f)
                if ka is None or kb is None:
                    continue
                r7.sites += 1
                r7.functions.add(f.fq)
                ok = ka == kb
                r7.ob(ok, '%s|%s' % (f.qualname, norm(node, 60)),
                      {'function': f.qualname, 'expression': norm(node, 80),
                       'kinds': [ka, kb]})
                if not ok:
                    rep.finding(r7, f.qualname, norm(node, 90),
                                'end-kind-mismatch', SM, node.lineno,
                                'a %s end is compared with / assigned from '
                                '%s objects: the test can never hold (an '
                                'owned subscription on a permanent filter '
                                'and an owned destination is not '
                                'rediscovered, so it is never removed)'
                                % (ka, kb))
    if r7.sites < 3:
        raise AnalysisError('subscription end lookups not found (%d)'
                            % r7.sites)
    # ---- R3 ---------------------------------------------------------------
    for rname, pvar in (('remove_destinations', 'dest_path'),
                        ('remove_filter', 'filter_path')):
        f = mgr.methods[rname]
        r3.sites += 1
        r3.functions.add(f.fq)
        # judged with private helpers inlined (the self-recursive call for
        # list arguments stays a call); the instance that is looked up is
        # the instance that is deleted, whatever the variable is called
        from ..inline import Flat as _Flat3
        from ..flow import value_of as _vo3
        f = _Flat3(f, keep=(rname,))
        cfg = CFG(f.node)
        dels = [s for s in cfg.stmts() if isinstance(s, (ast.Expr,
                                                          ast.Assign)) and
                isinstance(s.value, ast.Call) and
                dotted(s.value.func) == 'server.conn.DeleteInstance']
        refq = [s for s in cfg.stmts() if isinstance(s, ast.Assign) and
                isinstance(s.value, ast.Call) and
                dotted(s.value.func) == 'server.conn.ReferenceNames' and
                s.value.args and
                any(k.arg == 'ResultClass' and
                    norm(k.value) == 'SUBSCRIPTION_CLASSNAME'
                    for k in s.value.keywords)]
        # the delete runs only where the query result is known to be empty,
        # and a non-empty result is refused (not silently skipped)
        sf3 = stmt_facts(f.node)

        def knows(st_, pol_, rv):
            for t, pl in sf3.get(st_, ((), ()))[0]:
                if norm(t) == rv and pl == pol_:
                    return True
                if isinstance(t, ast.Compare) and len(t.ops) == 1 and \
                        norm(t.left) == 'len(%s)' % rv and \
                        norm(t.comparators[0]) == '0':
                    empty = isinstance(t.ops[0], ast.Eq) == pl
                    if isinstance(t.ops[0], (ast.Eq, ast.NotEq)) and \
                            empty != pol_:
                        return True
            return False

        def same_obj(a, b):
            return norm(a) == norm(b) or \
                norm(_vo3(f, a)) == norm(_vo3(f, b))

        def guarded(d):
            if not d.value.args:
                return False
            for q in refq:
                rv = norm(q.targets[0])
                if same_obj(q.value.args[0], d.value.args[0]) and \
                        cfg.dominates(q, d) and knows(d, False, rv) and \
                        any(isinstance(s_, ast.Raise) and
                            knows(s_, True, rv) for s_ in sf3):
                    return True
            return False
        ok = bool(dels) and bool(refq) and all(guarded(d) for d in dels)
        r3.ob(ok, rname + ':ref-guard',
              {'function': rname,
               'query': norm(refq[0], 100) if refq else None})
        if not ok:
            rep.finding(r3, f.qualname, 'ReferenceNames guard',
                        'unguarded-delete', SM, f.node.lineno,
                        'DeleteInstance is reachable without the check that '
                        'no subscription references the instance')
    asub = mgr.methods.get('add_subscriptions')
    if asub is None:
        raise AnalysisError('add_subscriptions vanished')
    r3.sites += 1
    r3.functions.add(asub.fq)
    cfg = CFG(asub.node)
    creates = [s for s in cfg.stmts() if any(
        isinstance(c, ast.Call) and
        dotted(c.func) == 'self._create_subscription'
        for c in ast.walk(s)) and not isinstance(s, (ast.If, ast.For,
                                                     ast.Try))]
    refuse = {}
    for s in cfg.stmts():
        if isinstance(s, ast.If) and norm(s.test) == 'not owned':
            for x in s.body:
                if isinstance(x, ast.If) and always_exits(x.body) and \
                        isinstance(x.test, ast.Compare) and \
                        isinstance(x.test.ops[0], ast.In):
                    refuse[norm(x.test.comparators[0])] = (s, x)
    for what in ('owned_filter_paths', 'owned_destination_paths'):
        ok = what in refuse and creates and all(
            cfg.dominates(refuse[what][0], c) for c in creates)
        r3.ob(ok, 'add_subscriptions:refuse:' + what)
        if not ok:
            rep.finding(r3, asub.qualname, 'not owned and path in ' + what,
                        'no-refusal', SM, asub.node.lineno,
                        'a permanent subscription on an owned filter/'
                        'destination is not refused before creation')
    # the owned path lists come from the owned lists
    for var, lst in (('owned_filter_paths', 'self._owned_filters'),
                     ('owned_destination_paths', 'self._owned_destinations')):
        ok = any(isinstance(n, ast.Assign) and norm(n.targets[0]) == var and
                 lst in norm(n.value) and 'inst.path' in norm(n.value)
                 for n in walk_no_nested(asub.node))
        r3.ob(ok, 'add_subscriptions:src:' + var)
        if not ok:
            rep.finding(r3, asub.qualname, var, 'owned-source', SM,
                        asub.node.lineno, '%s is not derived from %s'
                        % (var, lst))

    # ---- R5 ---------------------------------------------------------------
    names.run_name_rules(repo, rep, r5, r5b, lambda f: f.file == SP)


def recursion_forwards_parameters(repo, rep):
    """C18.R8: the manager methods that accept one path or a list of paths
    call themselves for each list item.  Such a call must hand on every
    other parameter: a parameter that is left out silently takes its
    default in the nested call (e.g. owned=True), so a permanent request
    for a list of destinations is carried out - and recorded, and later
    removed - as an owned one, and the owned-filter refusal is skipped."""
    r8 = rep.rule('C18.R8', 'self-recursive calls over list items pass every '
                  'parameter on')
    SMF = 'pywbem/_subscription_manager.py'
    mgr = repo.cls(SMF, 'WBEMSubscriptionManager')
    n_dispatch = 0
    for f in mgr.methods.values():
        ps = [p for p in f.params if p != 'self']
        # a method that accepts one item or a list of items (the anchor of
        # this rule, whether it handles the list by recursion or by a loop)
        if any(isinstance(t, ast.Call) and dotted(t.func) == 'isinstance' and
               len(t.args) == 2 and norm(t.args[0]) in ps and
               'list' in norm(t.args[1]) for t in walk_no_nested(f.node)):
            n_dispatch += 1
            r8.sites += 1
            r8.functions.add(f.fq)
        for c in walk_no_nested(f.node):
            if not (isinstance(c, ast.Call) and
                    dotted(c.func) == 'self.' + f.name):
                continue
            r8.sites += 1
            r8.functions.add(f.fq)
            passed = {}
            star = any(isinstance(a, ast.Starred) for a in c.args) or \
                any(k.arg is None for k in c.keywords)
            for i, a in enumerate(c.args):
                if i < len(ps):
                    passed[ps[i]] = norm(a)
            for k in c.keywords:
                if k.arg:
                    passed[k.arg] = norm(k.value)
            missing = [] if star else [p for p in ps if p not in passed]
            r8.ob(not missing, '%s|%s' % (f.qualname, norm(c, 60)),
                  {'passed': passed})
            if missing:
                rep.finding(r8, f.qualname, norm(c, 80), 'parameter-dropped',
                            SMF, c.lineno,
                            'the nested call for a list item does not pass '
                            '%s: the item is processed with the default '
                            'value instead of what the caller asked for '
                            '(for owned: a permanent request becomes an '
                            'owned one, is recorded in the owned list and '
                            'deleted by remove_server(), and the refusal of '
                            'permanent subscriptions on owned filters / '
                            'destinations is skipped)' % ', '.join(missing))
    if n_dispatch < 3:
        raise AnalysisError('C18.R8: only %d item-or-list methods found'
                            % n_dispatch)


def owned_aliases(func, prefix='self._owned_'):
    """{local name: owned-list expression text} for locals bound to (an
    element of) one of the manager's owned-list tables"""
    out = {}
    for n in walk_no_nested(func.node):
        if isinstance(n, ast.Assign) and len(n.targets) == 1 and \
                isinstance(n.targets[0], ast.Name) and \
                norm(n.value).startswith(prefix):
            out[n.targets[0].id] = norm(n.value)
    return out


def owned_only_after_create(repo, rep):
    """C18.R9: in the _create_* methods an instance enters an owned list
    only on paths on which this manager's CreateInstance has returned.  An
    instance that already exists in the server but is not in the owned list
    is by construction not owned by this manager (it is permanent, or owned
    by a manager with another ID); adopting it (e.g. by swallowing
    CIM_ERR_ALREADY_EXISTS) makes remove_server() delete an instance the
    manager never created."""
    from ..cfg import CFG
    r9 = rep.rule('C18.R9', 'an instance is recorded as owned only after '
                  'this manager created it')
    mgr = repo.cls(SM, 'WBEMSubscriptionManager')
    for fn in ('_create_destination', '_create_filter',
               '_create_subscription'):
        f = mgr.methods.get(fn)
        if f is None:
            raise AnalysisError('WBEMSubscriptionManager.%s vanished' % fn)
        cfg = CFG(f.node)
        creates = set()
        appends = []
        for st in cfg.nodes:
            if not isinstance(st, ast.stmt) or isinstance(
                    st, (ast.If, ast.For, ast.While, ast.Try, ast.With)):
                continue
            for c in ast.walk(st):
                if not isinstance(c, ast.Call):
                    continue
                d = dotted(c.func) or ''
                if d.endswith('.CreateInstance'):
                    creates.add(st)
                if isinstance(c.func, ast.Attribute) and \
                        c.func.attr in ('append', 'insert', 'extend') and \
                        ('_owned_' in norm(c.func.value) or
                         norm(c.func.value) in owned_aliases(f)):
                    appends.append(st)
        if not creates or not appends:
            raise AnalysisError('%s: CreateInstance / owned-list update not '
                                'found' % fn)
        for w in appends:
            r9.sites += 1
            r9.functions.add(f.fq)
            seen = {cfg.ENTRY}
            work = [cfg.ENTRY]
            while work:
                a = work.pop()
                for b in cfg.succ[a]:
                    if a in creates and cfg.label.get((a, b)) != {'exc'}:
                        continue        # normal return of CreateInstance
                    if b not in seen:
                        seen.add(b)
                        work.append(b)
            ok = w not in seen
            r9.ob(ok, '%s|%s' % (fn, norm(w, 60)))
            if not ok:
                rep.finding(r9, f.qualname, norm(w, 70), 'adopted', SM,
                            w.lineno,
                            'the owned list is extended on a path on which '
                            'CreateInstance has not returned (e.g. its '
                            'CIM_ERR_ALREADY_EXISTS is swallowed): an '
                            'instance that already exists in the server - '
                            'permanent, or owned by another manager - is '
                            'adopted as owned and later deleted by '
                            'remove_server() / context manager exit')


_FOLDS = ('lower', 'upper', 'casefold', 'strip', 'lstrip', 'rstrip', 'title',
          'capitalize', 'swapcase')


def _is_value_expr(e):
    """the expression reads a property / key *value* of an instance or
    path: x.value, x['Name'], x.keybindings['Name'], x.properties[...]"""
    if isinstance(e, ast.Attribute) and e.attr == 'value':
        return True
    if isinstance(e, ast.Subscript) and \
            isinstance(e.slice, ast.Constant) and \
            isinstance(e.slice.value, str):
        return True
    return False


def folded_value_operands(cmp_):
    out = []
    for op in [cmp_.left] + list(cmp_.comparators):
        if isinstance(op, ast.Call) and isinstance(op.func, ast.Attribute) \
                and op.func.attr in _FOLDS and not op.args and \
                _is_value_expr(op.func.value):
            out.append(op)
    return out


def values_compared_exactly(repo, rep):
    """C18.R10: property and key values of filter / destination /
    subscription instances are compared as they are.  The Name of a filter
    or destination is a case-sensitive string key: two instances whose
    Names differ only in case (or in surrounding blanks) are different
    objects on the server.  A comparison that folds a value first treats
    them as one - add_filter() refuses a new filter as a duplicate of
    another one, ownership and existence tests hit the wrong instance.
    (CIM *names* - class names, property names - are case-insensitive and
    are not values; they are not covered by this rule.)"""
    r10 = rep.rule('C18.R10', 'instance property / key values are compared '
                   'without case folding or stripping')
    m = repo.module(SM)
    n = 0
    for f in m.all_funcs():
        for c in walk_no_nested(f.node):
            if not isinstance(c, ast.Compare):
                continue
            if not any(_is_value_expr(x) or
                       (isinstance(x, ast.Call) and
                        isinstance(x.func, ast.Attribute) and
                        _is_value_expr(x.func.value))
                       for x in [c.left] + list(c.comparators)):
                continue
            n += 1
            r10.sites += 1
            r10.functions.add(f.fq)
            bad = folded_value_operands(c)
            r10.ob(not bad, '%s|%s' % (f.qualname, norm(c, 60)))
            for op in bad[:1]:
                rep.finding(r10, f.qualname, norm(c, 70), 'value-folded',
                            SM, c.lineno,
                            'the value %s is %s-folded before it is '
                            'compared: instances whose values differ only '
                            'in case / surrounding blanks (distinct objects '
                            'on the server, string keys are case-sensitive) '
                            'are treated as the same'
                            % (norm(op.func.value, 40), op.func.attr))
    if n < 3:
        raise AnalysisError('C18.R10: only %d value comparisons found in the '
                            'subscription manager' % n)
    probe = ast.parse("a.value.lower() == b.lower()").body[0].value
    if not folded_value_operands(probe):
        raise AnalysisError('C18.R10 recogniser broken')


def ownership_lists_are_not_handed_out(repo, rep):
    """C18.R14: what the manager owns is recorded in private containers
    (`_owned_filters`, `_owned_destinations`, `_owned_subscriptions`, ...
    dictionaries of lists set up in __init__).  A public method that
    returns one of these lists itself - not a copy - lets the caller change
    the ownership record without any server interaction: an appended
    permanent instance is deleted by remove_server(), a removed element is
    leaked, and `for d in mgr.get_owned_destinations(sid):
    mgr.remove_destinations(sid, d.path)` skips every second entry because
    the list shrinks under the loop.  So no public method returns a private
    container or an item of one uncopied."""
    from ..flow import value_of
    r14 = rep.rule('C18.R14', 'public methods return copies of the '
                   'ownership lists, never the lists themselves')
    mgr = repo.cls(SM, 'WBEMSubscriptionManager')
    init = mgr.methods.get('__init__')
    if init is None:
        raise AnalysisError('WBEMSubscriptionManager.__init__ vanished')
    priv = set()
    for a in walk_no_nested(init.node):
        if isinstance(a, ast.Assign) and len(a.targets) == 1 and \
                isinstance(a.targets[0], ast.Attribute) and \
                isinstance(a.targets[0].value, ast.Name) and \
                a.targets[0].value.id == 'self' and \
                a.targets[0].attr.startswith('_') and \
                (isinstance(a.value, (ast.Dict, ast.List)) or
                 (isinstance(a.value, ast.Call) and
                  dotted(a.value.func) in ('dict', 'list', 'OrderedDict',
                                           'NocaseDict'))):
            priv.add(a.targets[0].attr)
    if len(priv) < 3:
        raise AnalysisError('C18.R14: private containers of the manager not '
                            'found (%s)' % sorted(priv))
    n = 0
    for name, f in sorted(mgr.methods.items()):
        if name.startswith('_'):
            continue
        for st in walk_no_nested(f.node):
            if not (isinstance(st, ast.Return) and st.value is not None):
                continue
            v = value_of(f, st.value)
            base = v
            while isinstance(base, ast.Subscript):
                base = base.value
            if not (isinstance(base, ast.Attribute) and
                    isinstance(base.value, ast.Name) and
                    base.value.id == 'self' and base.attr in priv):
                n += 1
                continue
            n += 1
            r14.sites += 1
            r14.functions.add(f.fq)
            r14.ob(False, '%s|%s' % (f.qualname, norm(st, 60)))
            rep.finding(r14, f.qualname, norm(st, 70), 'internal-list-returned',
                        SM, st.lineno,
                        '%s hands out the manager\'s own record self.%s (or '
                        'an entry of it) instead of a copy: a caller that '
                        'edits or iterates-while-removing "its" list changes '
                        'what the manager believes it owns'
                        % (name, base.attr))
    r14.sites += 1
    r14.ob(n >= 5, 'returns-scanned', {'returns': n,
                                       'private_containers': sorted(priv)})
    if n < 5:
        raise AnalysisError('C18.R14: only %d return statements of public '
                            'methods scanned' % n)


def context_exit_always_cleans_up(repo, rep):
    """C18.R13: leaving the `with` block deletes the owned instances
    whatever the reason for leaving it: every way through __exit__() calls
    remove_all_servers().  A cleanup that is skipped for some exception
    types (e.g. for every pywbem.Error, which includes the CIMError of a
    refused add_filter()) leaves the owned filters, destinations and
    subscriptions in the server after the manager is gone - nobody owns
    them any more."""
    from ..inline import Flat
    from ..paths import return_paths
    r13 = rep.rule('C18.R13', '__exit__() removes all servers on every path')
    mgr = repo.cls(SM, 'WBEMSubscriptionManager')
    ex = mgr.methods.get('__exit__')
    if ex is None:
        raise AnalysisError('WBEMSubscriptionManager.__exit__ vanished')
    r13.sites += 1
    r13.functions.add(ex.fq)
    paths = return_paths(Flat(ex, keep=('remove_all_servers',)),
                         max_paths=64, inline=False, with_raises=True)
    if not paths:
        raise AnalysisError('__exit__: paths not enumerable')
    bad = [p_ for p_ in paths if p_.raised is None and not any(
        isinstance(c, ast.Call) and
        dotted(c.func) == 'self.remove_all_servers'
        for st in p_.effects for c in ast.walk(st))]
    r13.ob(not bad, '__exit__', {'paths': len(paths)})
    for p_ in bad[:1]:
        conds = ', '.join('%s%s' % ('' if pol else 'not ', norm(t, 50))
                          for t, pol in p_.facts[:3]) or 'no condition'
        rep.finding(r13, ex.qualname, 'self.remove_all_servers()',
                    'cleanup-skipped', SM, ex.node.lineno,
                    '__exit__() returns without calling '
                    'remove_all_servers() when %s: the owned instances stay '
                    'in the server although the manager that owns them is '
                    'gone' % conds)


def server_refuses_referenced_delete(repo, rep):
    """C18.R12: the (mock) server refuses to delete a filter or a listener
    destination that a subscription still references.  The manager checks
    that itself only in remove_filter() / remove_destinations(); when it
    goes away (remove_server(), remove_all_servers(), leaving the `with`
    block) it deletes its owned instances with a plain DeleteInstance and
    relies on the server's refusal - a subscription the manager does not
    know about (another manager, a restarted one, a foreign client) must
    keep its filter.  So in every provider of the subscription model except
    the subscription provider itself, each way to the actual removal
    (store.delete() or the inherited DeleteInstance) passes
    validate_no_subscription() on the instance name first."""
    from ..inline import Flat
    SP = 'pywbem_mock/_subscriptionproviders.py'
    r12 = rep.rule('C18.R12', 'filter / destination providers refuse the '
                   'deletion of an instance a subscription references')
    mod = repo.module(SP)
    n = 0
    for cname, cls in sorted(mod.classes.items()):
        f = cls.methods.get('DeleteInstance')
        if f is None:
            continue
        pcn = cls.consts.get('provider_classnames')
        if pcn is not None and 'SUBSCRIPTION' in norm(pcn).upper():
            continue
        n += 1
        r12.sites += 1
        r12.functions.add(f.fq)
        ff = Flat(f, keep=('validate_no_subscription',))
        cfg = CFG(ff.node)
        pname = [p_ for p_ in f.params if p_ != 'self'][0]

        def simple(s_):
            return not isinstance(s_, (ast.If, ast.For, ast.While, ast.Try,
                                       ast.With))
        removes = [s_ for s_ in cfg.stmts() if simple(s_) and any(
            isinstance(c, ast.Call) and isinstance(c.func, ast.Attribute)
            and (c.func.attr == 'delete' or
                 (c.func.attr == 'DeleteInstance' and
                  norm(c.func.value).startswith('super(')))
            for c in ast.walk(s_))]
        checks = [s_ for s_ in cfg.stmts() if simple(s_) and any(
            isinstance(c, ast.Call) and
            dotted(c.func) == 'self.validate_no_subscription' and
            c.args and norm(c.args[0]) == pname
            for c in ast.walk(s_))]
        if not removes:
            raise AnalysisError('%s.DeleteInstance: removal step not found'
                                % cname)
        for rm in removes:
            ok = bool(checks) and cfg.path_avoiding(
                cfg.ENTRY, rm, lambda x: x in checks) is None
            r12.ob(ok, '%s|%s' % (f.qualname, norm(rm, 50)))
            if not ok:
                rep.finding(r12, f.qualname, norm(rm, 60),
                            'unchecked-delete', SP, rm.lineno,
                            'the instance is removed on a path that has '
                            'not called self.validate_no_subscription(%s): '
                            'a %s that a subscription still references is '
                            'deleted (dangling reference; the subscription '
                            'manager relies on this refusal when it removes '
                            'a server)' % (pname, cname))
    if n < 2:
        raise AnalysisError('C18.R12: only %d referenced-object providers '
                            'with DeleteInstance found' % n)


def manager_id_stored_as_given(repo, rep):
    """C18.R11: the subscription manager ID that goes into the Name of every
    owned filter / destination (and into the patterns that recognise them)
    is the constructor argument as given.  Two managers are told apart by
    their IDs only; a transformation that maps different IDs to one stored
    value (strip(), lower(), ...) makes a manager with ID 'x ' recognise -
    and remove - the instances owned by the manager with ID 'x'."""
    r11 = rep.rule('C18.R11', 'the subscription manager ID is stored '
                   'unchanged (distinct IDs stay distinct)')
    mgr = repo.cls(SM, 'WBEMSubscriptionManager')
    init = mgr.methods.get('__init__')
    if init is None:
        raise AnalysisError('WBEMSubscriptionManager.__init__ vanished')
    r11.functions.add(init.fq)
    params = [p_ for p_ in init.params if p_ != 'self']
    stores = [n for n in walk_no_nested(init.node)
              if isinstance(n, ast.Assign) and len(n.targets) == 1 and
              norm(n.targets[0]) == 'self._subscription_manager_id']
    if not stores:
        raise AnalysisError('__init__ does not store '
                            '_subscription_manager_id')

    def origin(e, depth=0):
        """the parameter an expression is, through plain re-bindings"""
        if isinstance(e, ast.Name):
            if e.id in params:
                return e.id
            defs = [n.value for n in walk_no_nested(init.node)
                    if isinstance(n, ast.Assign) and len(n.targets) == 1 and
                    norm(n.targets[0]) == e.id]
            if len(defs) == 1 and depth < 3:
                return origin(defs[0], depth + 1)
        return None
    for st in stores:
        r11.sites += 1
        ok = origin(st.value) is not None
        r11.ob(ok, norm(st, 60))
        if not ok:
            rep.finding(r11, init.qualname, norm(st, 70), 'id-transformed',
                        SM, st.lineno,
                        'the stored ID is %s, not the argument itself: IDs '
                        'that differ only in what the transformation removes '
                        'are stored as the same ID, so one manager '
                        'recognises and removes the owned instances of the '
                        'other' % norm(st.value, 50))
