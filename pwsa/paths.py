"""Path summaries of (nearly) loop-free functions.

For rules that relate *what a function returns* to *what it did on the way*
(e.g. "eos is TRUE exactly on the paths that delete the context"), the shape
of the code (one if/else that assigns temporaries vs. early returns from each
branch) must not matter.  `return_paths(func)` enumerates the control-flow
paths to each `return` and gives for each path

  facts    [(expr, polarity)]  conditions known on the path, including the
           atomic consequences of and/or/not
  effects  [stmt]              the statements executed, in order
  env      {name: (expr, index)}  last straight-line definition of each local
           on the path, with its position in `effects`
  value    the returned expression
  resolve(expr)                the expression with locals replaced by their
           definitions on this path (bounded depth)

Loops are not unrolled: a loop body is recorded as one opaque effect (the
For/While statement itself); `try` bodies are followed, handlers that always
exit are dropped, other handlers fork a path.  If the number of paths exceeds
the bound the function returns None (the caller reports 'undecided').
"""
import ast
import copy

from .cfg import always_exits, GuardWalker


class Path:
    def __init__(self):
        self.facts = []
        self.fact_pos = []     # len(effects) when the fact was established
        self.effects = []
        self.env = {}
        self.value = None
        self.ret_stmt = None
        self.raised = None     # the Raise statement that ends the path
        self.stores = {}       # local name -> position of its last store

    def fork(self):
        p = Path()
        p.facts = list(self.facts)
        p.fact_pos = list(self.fact_pos)
        p.effects = list(self.effects)
        p.env = dict(self.env)
        p.stores = dict(self.stores)
        return p

    def contradicts(self, atoms):
        """one of the new atoms (expr, polarity) is the opposite of a fact
        already on the path, about plain local names that have not been
        stored to since (so the branch is infeasible)"""
        from .model import norm
        for t, pol in atoms:
            if not all(isinstance(x, (ast.Name, ast.Constant, ast.Compare,
                                      ast.cmpop, ast.expr_context,
                                      ast.UnaryOp, ast.unaryop, ast.Tuple))
                       for x in ast.walk(t)):
                continue
            names = {x.id for x in ast.walk(t) if isinstance(x, ast.Name)}
            txt = norm(t, 300)
            for (t0, p0), pos in zip(self.facts, self.fact_pos):
                if p0 != pol and norm(t0, 300) == txt and \
                        all(self.stores.get(nm, -1) < pos for nm in names):
                    return True
        return False

    def resolve(self, expr, depth=0):
        """expr with local names substituted by their definition on this
        path (a copy; the original tree is not modified)"""
        if expr is None or depth > 4:
            return expr
        env = self.env

        class Sub(ast.NodeTransformer):
            def visit_Name(self_inner, node):
                if isinstance(node.ctx, ast.Load) and node.id in env:
                    return copy.deepcopy(env[node.id][0])
                return node
        out = Sub().visit(copy.deepcopy(expr))
        if ast.dump(out) != ast.dump(expr) and depth < 3:
            return self.resolve(out, depth + 1)
        return out

    def defined_at(self, name):
        return self.env[name][1] if name in self.env else None

    def has(self, text, polarity):
        from .model import norm
        return any(norm(e) == text and p == polarity for e, p in self.facts)


def _flag_atoms(p, atoms):
    """what a test of a boolean flag local says about the expression the flag
    was computed from: `done = len(x) <= n` ... `if not done:` gives the
    fact (len(x) <= n, False) - provided no name of that expression was
    stored again in between"""
    from .cfg import GuardWalker
    out = []
    for t, pol in atoms:
        if not (isinstance(t, ast.Name) and t.id in p.env):
            continue
        val, pos = p.env[t.id]
        if not isinstance(val, (ast.Compare, ast.BoolOp)) and not (
                isinstance(val, ast.UnaryOp) and isinstance(val.op, ast.Not)):
            continue
        names = {x.id for x in ast.walk(val) if isinstance(x, ast.Name)}
        if any(p.stores.get(nm, -1) > pos for nm in names):
            continue
        out += [a for a in GuardWalker._atoms(val, pol)]
    return out


def _helper_of(func, call):
    """the private same-class method / module function a call goes to"""
    from .model import dotted
    d = dotted(call.func) or ''
    if func.cls is not None and d.count('.') == 1 and \
            d.split('.')[0] in ('self', 'cls', func.cls.name):
        name = d.split('.')[1]
        if name.startswith('_') and not name.startswith('__'):
            m = func.cls.find_method(name)
            if m is not None and m is not func:
                return m
    elif d and '.' not in d and d.startswith('_'):
        m = func.module.functions.get(d)
        if m is not None and m is not func:
            return m
    if func.cls is not None and d.count('.') == 1 and \
            _own_instance(func, d.split('.')[0]):
        # `obj = OwnClass()` / `cls()` ... `obj._helper(...)`
        name = d.split('.')[1]
        if name.startswith('_') and not name.startswith('__'):
            m = func.cls.find_method(name)
            if m is not None and m is not func and not m.is_static():
                return m
    return None


def _own_instance(func, name):
    """the local `name` is bound exactly once in func, to a new instance of
    the function's own class"""
    from .model import dotted, walk_no_nested
    if name in ('self', 'cls') or name in getattr(func, 'params', ()):
        return False
    node = getattr(func, 'orig', func).node
    defs = [n for n in walk_no_nested(node)
            if isinstance(n, ast.Name) and n.id == name and
            isinstance(n.ctx, (ast.Store, ast.Del))]
    if len(defs) != 1:
        return False
    for n in walk_no_nested(node):
        if isinstance(n, ast.Assign) and len(n.targets) == 1 and \
                n.targets[0] is defs[0] and isinstance(n.value, ast.Call) \
                and dotted(n.value.func) in ('cls', func.cls.name):
            return True
    return False


def _bind_args(helper, call):
    """{param: argument expression} for a call, or None if not evident"""
    params = [p for p in helper.params if p not in ('self', 'cls')]
    if helper.is_static() or helper.cls is None:
        pass
    out = {}
    if any(isinstance(a, ast.Starred) for a in call.args) or \
            any(k.arg is None for k in call.keywords):
        return None
    if len(call.args) > len(params):
        return None
    for p, a in zip(params, call.args):
        out[p] = a
    for k in call.keywords:
        if k.arg not in params:
            return None
        out[k.arg] = k.value
    dfl = helper.param_defaults()
    for p in params:
        if p not in out:
            if p in dfl:
                out[p] = dfl[p]
            else:
                return None
    # a method called on another instance of the class: `self` of the
    # helper is that object
    recv = call.func.value if isinstance(call.func, ast.Attribute) else None
    if isinstance(recv, ast.Name) and recv.id not in ('self', 'cls') and \
            helper.cls is not None and recv.id != helper.cls.name and \
            'self' in helper.params:
        out['self'] = recv
    return out


class _Subst(ast.NodeTransformer):
    def __init__(self, mapping, prefix, locals_):
        self.mapping = mapping
        self.prefix = prefix
        self.locals_ = locals_

    def visit_Name(self, node):
        if node.id in self.mapping and isinstance(node.ctx, ast.Load):
            return copy.deepcopy(self.mapping[node.id])
        if node.id in self.locals_:
            return ast.copy_location(
                ast.Name(id=self.prefix + node.id, ctx=node.ctx), node)
        return node


_HELPER_CACHE = {}


def return_paths(func, max_paths=400, inline=True, _depth=0,
                 with_raises=False):
    """with_raises: paths that end in a `raise` statement are reported too
    (Path.raised is the Raise statement, Path.value is None)"""
    done = []
    overflow = [False]

    def run(stmts, paths):
        """advance every path through stmts; returns the paths that fall
        through"""
        for st in stmts:
            if not paths:
                return []
            nxt = []
            for p in paths:
                nxt += step(st, p)
            paths = nxt
            if len(paths) + len(done) > max_paths:
                overflow[0] = True
                return []
        return paths

    def assign(p, st):
        if isinstance(st, ast.Assign) and len(st.targets) == 1 and \
                isinstance(st.targets[0], ast.Name):
            # a definition that mentions the name itself is kept resolved
            val = p.resolve(st.value) if any(
                isinstance(x, ast.Name) and x.id == st.targets[0].id
                for x in ast.walk(st.value)) else st.value
            p.env[st.targets[0].id] = (val, len(p.effects) - 1)
        else:
            # any other store to a name invalidates its definition
            for x in ast.walk(st):
                if isinstance(x, ast.Name) and isinstance(x.ctx, ast.Store):
                    p.env.pop(x.id, None)
        for x in ast.walk(st):
            if isinstance(x, ast.Name) and isinstance(x.ctx, (ast.Store,
                                                               ast.Del)):
                p.stores[x.id] = len(p.effects)

    def step(st, p):
        if isinstance(st, ast.Return):
            p.effects.append(st)
            p.value = st.value
            p.ret_stmt = st
            done.append(p)
            return []
        if isinstance(st, ast.Raise):
            if with_raises:
                p.effects.append(st)
                p.raised = st
                done.append(p)
            return []
        if isinstance(st, (ast.Continue, ast.Break)):
            # only met when a loop body is analysed as a block: the
            # iteration ends here
            p.effects.append(st)
            p.value = None
            p.ret_stmt = st
            done.append(p)
            return []
        if isinstance(st, ast.If):
            a, b = p, p.fork()
            live = []
            for x, fs, blk in ((a, GuardWalker._atoms(st.test, True),
                                st.body),
                               (b, GuardWalker._atoms(st.test, False),
                                st.orelse)):
                if isinstance(st.test, ast.Constant) and \
                        bool(st.test.value) != (blk is st.body):
                    continue          # `if True:` / `if False:` - dead branch
                fs = list(fs) + _flag_atoms(x, fs)
                if x.contradicts(fs):
                    continue          # infeasible: opposite of a known fact
                x.facts += fs
                x.fact_pos += [len(x.effects)] * len(fs)
                live.append((x, blk))
            out = []
            for x, blk in live:
                out += run(blk, [x])
            return out
        if isinstance(st, ast.Try):
            outs = run(st.body, [p.fork()])
            if st.orelse:
                outs = run(st.orelse, outs)
            for h in st.handlers:
                if with_raises or not always_exits(h.body):
                    outs += run(h.body, [p.fork()])
            if st.finalbody:
                outs = run(st.finalbody, outs)
            return outs
        if isinstance(st, (ast.With, ast.AsyncWith)):
            return run(st.body, [p])
        if isinstance(st, (ast.For, ast.AsyncFor, ast.While)):
            p.effects.append(st)
            for x in ast.walk(st):
                if isinstance(x, ast.Name) and isinstance(x.ctx, ast.Store):
                    p.env.pop(x.id, None)
                    p.stores[x.id] = len(p.effects)
            return [p]
        if isinstance(st, (ast.FunctionDef, ast.AsyncFunctionDef,
                           ast.ClassDef)):
            return [p]
        inl = try_inline(st, p)
        if inl is not None:
            return inl
        p.effects.append(st)
        assign(p, st)
        return [p]

    def try_inline(st, p):
        """a statement that is a call of a private helper (optionally
        assigning its result) is replaced by the helper's own paths"""
        if not inline or _depth >= 2:
            return None
        call = None
        target = None
        if isinstance(st, ast.Expr) and isinstance(st.value, ast.Call):
            call = st.value
        elif isinstance(st, ast.Assign) and len(st.targets) == 1 and \
                isinstance(st.value, ast.Call):
            call, target = st.value, st.targets[0]
        if call is None:
            return None
        h = _helper_of(func, call)
        if h is None:
            return None
        args = _bind_args(h, call)
        if args is None:
            return None
        key = (id(h.node), _depth, with_raises)
        if key not in _HELPER_CACHE or _HELPER_CACHE[key][0] is not h.node:
            _HELPER_CACHE[key] = (h.node, return_paths(
                h, max_paths, True, _depth + 1, with_raises))
        hp = _HELPER_CACHE[key][1]
        if hp is None or len(hp) > 12:
            return None
        from .alpha import binding_order
        hlocals = set(binding_order(h.node))
        mapping = {k: p.resolve(v) if isinstance(v, ast.Name) and
                   v.id in p.env and False else v for k, v in args.items()}
        sub = _Subst(mapping, h.name + '$', hlocals)
        outs = []
        for q in hp:
            n = p.fork()
            base = len(n.effects)
            for f, fp in zip(q.facts, q.fact_pos):
                n.facts.append((sub.visit(copy.deepcopy(f[0])), f[1]))
                n.fact_pos.append(base + fp)
            for e in q.effects:
                if isinstance(e, ast.Return):
                    continue
                e2 = sub.visit(copy.deepcopy(e))
                n.effects.append(e2)
            if q.raised is not None:
                n.raised = n.effects[-1]
                done.append(n)
                continue
            for k, (val, pos) in q.env.items():
                n.env[h.name + '$' + k] = (sub.visit(copy.deepcopy(val)),
                                           len(n.effects) - 1)
            val = sub.visit(copy.deepcopy(q.value)) \
                if q.value is not None else ast.Constant(value=None)
            if isinstance(target, ast.Name):
                n.env[target.id] = (val, len(n.effects) - 1)
            elif isinstance(target, ast.Tuple):
                vr = n.resolve(val)
                if isinstance(vr, ast.Tuple) and \
                        len(vr.elts) == len(target.elts):
                    for t, v in zip(target.elts, vr.elts):
                        if isinstance(t, ast.Name):
                            n.env[t.id] = (v, len(n.effects) - 1)
                else:
                    for t in target.elts:
                        if isinstance(t, ast.Name):
                            n.env.pop(t.id, None)
            outs.append(n)
        return outs

    from .model import strip_docstring
    rest = run(strip_docstring(func.node.body), [Path()])
    for p in rest:          # falls off the end: returns None
        p.value = None
        done.append(p)
    if overflow[0]:
        return None
    return done


class _Block:
    """a statement list presented to return_paths() as a function"""

    def __init__(self, body, like):
        self.node = ast.FunctionDef(
            name='<block>', args=ast.arguments(
                posonlyargs=[], args=[], kwonlyargs=[], kw_defaults=[],
                defaults=[]), body=list(body), decorator_list=[])
        self.cls = getattr(like, 'cls', None)
        self.module = getattr(like, 'module', None)
        self.name = '<block>'
        self.params = []


def block_paths(stmts, like=None, max_paths=400):
    """paths through a statement list that do not raise (they fall through
    or return); see return_paths"""
    return return_paths(_Block(stmts, like), max_paths=max_paths,
                        inline=False)


_ENSURES = {}


def ensures(func):
    """[(expr over the parameters, polarity)] that hold whenever `func`
    returns normally: the facts common to all its returning paths, with
    locals replaced by their definitions, restricted to facts that mention
    only parameters (that the function does not re-bind) and constants.
    A function like

        def _check(node, name):
            if node[0] == name:
                return
            raise Error(...)

    ensures (node[0] == name, True)."""
    key = id(func.node)
    hit = _ENSURES.get(key)
    if hit is not None and hit[0] is func.node:
        return hit[1]
    _ENSURES[key] = (func.node, [])
    from .model import norm
    paths = return_paths(func, inline=False)
    if not paths:
        return []
    params = {p for p in func.params if p not in ('self', 'cls')}
    rebound = {x.id for x in ast.walk(func.node)
               if isinstance(x, ast.Name) and
               isinstance(x.ctx, (ast.Store, ast.Del))}
    per_path = []
    for pth in paths:
        fs = {}
        for t, pol in pth.facts:
            r = pth.resolve(t)
            names = {x.id for x in ast.walk(r) if isinstance(x, ast.Name)}
            if names and names <= params - rebound and not any(
                    isinstance(x, ast.Call) for x in ast.walk(r)):
                fs[(norm(r, 200), pol)] = (r, pol)
        per_path.append(fs)
    common = set(per_path[0])
    for fs in per_path[1:]:
        common &= set(fs)
    out = [per_path[0][k] for k in sorted(common)]
    _ENSURES[key] = (func.node, out)
    return out
