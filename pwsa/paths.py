"""Path summaries of (nearly) loop-free functions.

For rules that relate *what a function returns* to *what it did on the way*
(e.g. "eos is TRUE exactly on the paths that delete the context"), the shape
of the code (one if/else that assigns temporaries vs. early returns from each
branch) must not matter.  `return_paths(func)` enumerates the control-flow
paths to each `return` and gives for each path

  facts    [(expr, polarity)]  conditions known on the path, including the
           atomic consequences of and/or/not
  effects  [stmt]              the statements executed, in order
  env      {name: (expr, index)}  last straight-line definition of each local
           on the path, with its position in `effects`
  value    the returned expression
  resolve(expr)                the expression with locals replaced by their
           definitions on this path (bounded depth)

Loops are not unrolled: a loop body is recorded as one opaque effect (the
For/While statement itself); `try` bodies are followed, handlers that always
exit are dropped, other handlers fork a path.  If the number of paths exceeds
the bound the function returns None (the caller reports 'undecided').
"""
import ast
import copy

from .cfg import always_exits, GuardWalker


class Path:
    def __init__(self):
        self.facts = []
        self.effects = []
        self.env = {}
        self.value = None
        self.ret_stmt = None

    def fork(self):
        p = Path()
        p.facts = list(self.facts)
        p.effects = list(self.effects)
        p.env = dict(self.env)
        return p

    def resolve(self, expr, depth=0):
        """expr with local names substituted by their definition on this
        path (a copy; the original tree is not modified)"""
        if expr is None or depth > 4:
            return expr
        env = self.env

        class Sub(ast.NodeTransformer):
            def visit_Name(self_inner, node):
                if isinstance(node.ctx, ast.Load) and node.id in env:
                    return copy.deepcopy(env[node.id][0])
                return node
        out = Sub().visit(copy.deepcopy(expr))
        if ast.dump(out) != ast.dump(expr) and depth < 3:
            return self.resolve(out, depth + 1)
        return out

    def defined_at(self, name):
        return self.env[name][1] if name in self.env else None

    def has(self, text, polarity):
        from .model import norm
        return any(norm(e) == text and p == polarity for e, p in self.facts)


def return_paths(func, max_paths=400):
    done = []
    overflow = [False]

    def run(stmts, paths):
        """advance every path through stmts; returns the paths that fall
        through"""
        for st in stmts:
            if not paths:
                return []
            nxt = []
            for p in paths:
                nxt += step(st, p)
            paths = nxt
            if len(paths) + len(done) > max_paths:
                overflow[0] = True
                return []
        return paths

    def assign(p, st):
        if isinstance(st, ast.Assign) and len(st.targets) == 1 and \
                isinstance(st.targets[0], ast.Name):
            # a definition that mentions the name itself is kept resolved
            val = p.resolve(st.value) if any(
                isinstance(x, ast.Name) and x.id == st.targets[0].id
                for x in ast.walk(st.value)) else st.value
            p.env[st.targets[0].id] = (val, len(p.effects) - 1)
        else:
            # any other store to a name invalidates its definition
            for x in ast.walk(st):
                if isinstance(x, ast.Name) and isinstance(x.ctx, ast.Store):
                    p.env.pop(x.id, None)

    def step(st, p):
        if isinstance(st, ast.Return):
            p.effects.append(st)
            p.value = st.value
            p.ret_stmt = st
            done.append(p)
            return []
        if isinstance(st, ast.Raise):
            return []
        if isinstance(st, ast.If):
            a, b = p, p.fork()
            a.facts += list(GuardWalker._atoms(st.test, True))
            b.facts += list(GuardWalker._atoms(st.test, False))
            return run(st.body, [a]) + run(st.orelse, [b])
        if isinstance(st, ast.Try):
            outs = run(st.body, [p.fork()])
            if st.orelse:
                outs = run(st.orelse, outs)
            for h in st.handlers:
                if not always_exits(h.body):
                    outs += run(h.body, [p.fork()])
            if st.finalbody:
                outs = run(st.finalbody, outs)
            return outs
        if isinstance(st, (ast.With, ast.AsyncWith)):
            return run(st.body, [p])
        if isinstance(st, (ast.For, ast.AsyncFor, ast.While)):
            p.effects.append(st)
            for x in ast.walk(st):
                if isinstance(x, ast.Name) and isinstance(x.ctx, ast.Store):
                    p.env.pop(x.id, None)
            return [p]
        if isinstance(st, (ast.FunctionDef, ast.AsyncFunctionDef,
                           ast.ClassDef)):
            return [p]
        p.effects.append(st)
        assign(p, st)
        return [p]

    from .model import strip_docstring
    rest = run(strip_docstring(func.node.body), [Path()])
    for p in rest:          # falls off the end: returns None
        p.value = None
        done.append(p)
    if overflow[0]:
        return None
    return done
