"""Constant-argument pruning of a callee's paths.

A call `T(a=False, b=None)` cannot reach a statement of T that every path
guards with `if a:`.  `reachable_under(T, stmt, consts)` enumerates T's
paths (paths.return_paths, no inlining) and evaluates the conditions that
hold on each path in three-valued logic under the constant parameter
values; the statement is unreachable if every path containing it has a
condition that is definitely violated.

Only literal constants (None, True, False, numbers, strings) passed for
parameters - or defaults of parameters that are not passed - are used, and a
parameter that is re-assigned on a path before the condition is evaluated is
looked up through that assignment (or becomes unknown).  Anything that is
not evident evaluates to UNKNOWN, which never prunes.
"""
import ast

from .paths import return_paths

UNKNOWN = object()
_STR_METHODS = ('lower', 'upper', 'casefold', 'strip', 'lstrip', 'rstrip',
                'title', 'capitalize', 'swapcase', 'format', 'join',
                'replace')


def const_args(call, target):
    """{param: python constant} for the literal arguments of `call` to
    function `target` (model.Func) and for the literal defaults of the
    parameters the call does not pass; parameters whose argument is not a
    literal are absent"""
    params = [p for p in target.params if p not in ('self', 'cls')]
    if any(isinstance(a, ast.Starred) for a in call.args) or \
            any(k.arg is None for k in call.keywords):
        return {}
    given = {}
    for p, a in zip(params, call.args):
        given[p] = a
    for k in call.keywords:
        given[k.arg] = k.value
    dfl = target.param_defaults()
    out = {}
    for p in params:
        e = given.get(p, dfl.get(p))
        if isinstance(e, ast.Constant):
            out[p] = e.value
    return out


def evaluate(expr, lookup, depth=0):
    """three-valued evaluation: a python value, or UNKNOWN"""
    if depth > 6:
        return UNKNOWN
    if isinstance(expr, ast.Constant):
        return expr.value
    if isinstance(expr, ast.Name):
        return lookup(expr.id)
    if isinstance(expr, ast.UnaryOp) and isinstance(expr.op, ast.Not):
        v = evaluate(expr.operand, lookup, depth + 1)
        return UNKNOWN if v is UNKNOWN else (not v)
    if isinstance(expr, ast.BoolOp):
        vals = [evaluate(v, lookup, depth + 1) for v in expr.values]
        if isinstance(expr.op, ast.And):
            if any(v is not UNKNOWN and not v for v in vals):
                return False
            if all(v is not UNKNOWN for v in vals):
                return vals[-1]
            return UNKNOWN
        if any(v is not UNKNOWN and v for v in vals):
            return True
        if all(v is not UNKNOWN for v in vals):
            return vals[-1]
        return UNKNOWN
    if isinstance(expr, ast.IfExp):
        t = evaluate(expr.test, lookup, depth + 1)
        if t is UNKNOWN:
            a = evaluate(expr.body, lookup, depth + 1)
            b = evaluate(expr.orelse, lookup, depth + 1)
            if a is not UNKNOWN and b is not UNKNOWN and \
                    type(a) is type(b) and a == b:
                return a
            return UNKNOWN
        return evaluate(expr.body if t else expr.orelse, lookup, depth + 1)
    if isinstance(expr, (ast.Tuple, ast.List)):
        vals = [evaluate(v, lookup, depth + 1) for v in expr.elts]
        if any(v is UNKNOWN for v in vals):
            return UNKNOWN
        return tuple(vals)
    if isinstance(expr, ast.Compare) and len(expr.ops) == 1:
        a = evaluate(expr.left, lookup, depth + 1)
        b = evaluate(expr.comparators[0], lookup, depth + 1)
        op = expr.ops[0]
        if (a is None) != (b is None) and (a is UNKNOWN or b is UNKNOWN):
            # a string-method result (x.lower(), ...) is never None
            other = expr.comparators[0] if a is None else expr.left
            if isinstance(other, ast.Call) and \
                    isinstance(other.func, ast.Attribute) and \
                    other.func.attr in _STR_METHODS:
                if isinstance(op, (ast.Eq, ast.Is)):
                    return False
                if isinstance(op, (ast.NotEq, ast.IsNot)):
                    return True
        if a is UNKNOWN or b is UNKNOWN:
            return UNKNOWN
        try:
            if isinstance(op, ast.Is):
                return a is b if (a is None or b is None or
                                  isinstance(a, bool) or isinstance(b, bool)) \
                    else UNKNOWN
            if isinstance(op, ast.IsNot):
                return a is not b if (a is None or b is None or
                                      isinstance(a, bool) or
                                      isinstance(b, bool)) else UNKNOWN
            if isinstance(op, ast.Eq):
                return a == b
            if isinstance(op, ast.NotEq):
                return a != b
            if isinstance(op, ast.In):
                return a in b
            if isinstance(op, ast.NotIn):
                return a not in b
            if isinstance(op, ast.Lt):
                return a < b
            if isinstance(op, ast.LtE):
                return a <= b
            if isinstance(op, ast.Gt):
                return a > b
            if isinstance(op, ast.GtE):
                return a >= b
        except TypeError:
            return UNKNOWN
    return UNKNOWN


def _lookup_at(path, pos, consts, params):
    """name -> value at position `pos` of the path's effects"""
    def look(name, _seen=()):
        if name in _seen:
            return UNKNOWN
        # last assignment to the name among effects[:pos]
        for i in range(min(pos, len(path.effects)) - 1, -1, -1):
            st = path.effects[i]
            if isinstance(st, (ast.For, ast.While, ast.AsyncFor)):
                if any(isinstance(x, ast.Name) and x.id == name and
                       isinstance(x.ctx, ast.Store) for x in ast.walk(st)):
                    return UNKNOWN
                continue
            stores = [x for x in ast.walk(st) if isinstance(x, ast.Name) and
                      x.id == name and isinstance(x.ctx, (ast.Store,
                                                          ast.Del))]
            if not stores:
                continue
            if isinstance(st, ast.Assign) and len(st.targets) == 1 and \
                    isinstance(st.targets[0], ast.Name):
                return evaluate(
                    st.value,
                    lambda n: _lookup_at(path, i, consts, params)(n))
            return UNKNOWN
        if name in consts:
            return consts[name]
        return UNKNOWN
    return look


def reachable_under(target, stmt, consts, max_paths=3000):
    """(reachable?, paths_examined).  `stmt` is a statement node of
    target.node; None for `reachable` when the paths cannot be enumerated"""
    paths = return_paths(target, max_paths=max_paths, inline=False)
    if paths is None:
        return None, 0
    n = 0
    for p in paths:
        idx = next((i for i, e in enumerate(p.effects) if e is stmt), None)
        if idx is None:
            continue
        n += 1
        feasible = True
        for (expr, pol), pos in zip(p.facts, p.fact_pos):
            if pos > idx:
                continue
            v = evaluate(expr, _lookup_at(p, pos, consts, target.params))
            if v is UNKNOWN:
                continue
            if bool(v) != pol:
                feasible = False
                break
        if feasible:
            return True, n
    return False, n
