"""Constant-argument pruning of a callee's paths.

A call `T(a=False, b=None)` cannot reach a statement of T that every path
guards with `if a:`.  `reachable_under(T, stmt, consts)` enumerates T's
paths (paths.return_paths, no inlining) and evaluates the conditions that
hold on each path in three-valued logic under the constant parameter
values; the statement is unreachable if every path containing it has a
condition that is definitely violated.

Only literal constants (None, True, False, numbers, strings) passed for
parameters - or defaults of parameters that are not passed - are used, and a
parameter that is re-assigned on a path before the condition is evaluated is
looked up through that assignment (or becomes unknown).  Anything that is
not evident evaluates to UNKNOWN, which never prunes.
"""
import ast

from .paths import return_paths

UNKNOWN = object()
_STR_METHODS = ('lower', 'upper', 'casefold', 'strip', 'lstrip', 'rstrip',
                'title', 'capitalize', 'swapcase', 'format', 'join',
                'replace')


def const_args(call, target):
    """{param: python constant} for the literal arguments of `call` to
    function `target` (model.Func) and for the literal defaults of the
    parameters the call does not pass; parameters whose argument is not a
    literal are absent"""
    params = [p for p in target.params if p not in ('self', 'cls')]
    if any(isinstance(a, ast.Starred) for a in call.args) or \
            any(k.arg is None for k in call.keywords):
        return {}
    given = {}
    for p, a in zip(params, call.args):
        given[p] = a
    for k in call.keywords:
        given[k.arg] = k.value
    dfl = target.param_defaults()
    out = {}
    for p in params:
        e = given.get(p, dfl.get(p))
        if isinstance(e, ast.Constant):
            out[p] = e.value
    return out


def evaluate(expr, lookup, depth=0):
    """three-valued evaluation: a python value, or UNKNOWN"""
    if depth > 6:
        return UNKNOWN
    if isinstance(expr, ast.Constant):
        return expr.value
    if isinstance(expr, ast.Name):
        return lookup(expr.id)
    if isinstance(expr, ast.UnaryOp) and isinstance(expr.op, ast.Not):
        v = evaluate(expr.operand, lookup, depth + 1)
        return UNKNOWN if v is UNKNOWN else (not v)
    if isinstance(expr, ast.BoolOp):
        vals = [evaluate(v, lookup, depth + 1) for v in expr.values]
        if isinstance(expr.op, ast.And):
            if any(v is not UNKNOWN and not v for v in vals):
                return False
            if all(v is not UNKNOWN for v in vals):
                return vals[-1]
            return UNKNOWN
        if any(v is not UNKNOWN and v for v in vals):
            return True
        if all(v is not UNKNOWN for v in vals):
            return vals[-1]
        return UNKNOWN
    if isinstance(expr, ast.IfExp):
        t = evaluate(expr.test, lookup, depth + 1)
        if t is UNKNOWN:
            a = evaluate(expr.body, lookup, depth + 1)
            b = evaluate(expr.orelse, lookup, depth + 1)
            if a is not UNKNOWN and b is not UNKNOWN and \
                    type(a) is type(b) and a == b:
                return a
            return UNKNOWN
        return evaluate(expr.body if t else expr.orelse, lookup, depth + 1)
    if isinstance(expr, (ast.Tuple, ast.List)):
        vals = [evaluate(v, lookup, depth + 1) for v in expr.elts]
        if any(v is UNKNOWN for v in vals):
            return UNKNOWN
        return tuple(vals)
    if isinstance(expr, ast.Compare) and len(expr.ops) == 1:
        a = evaluate(expr.left, lookup, depth + 1)
        b = evaluate(expr.comparators[0], lookup, depth + 1)
        op = expr.ops[0]
        if (a is None) != (b is None) and (a is UNKNOWN or b is UNKNOWN):
            # a string-method result (x.lower(), ...) is never None
            other = expr.comparators[0] if a is None else expr.left
            if isinstance(other, ast.Call) and \
                    isinstance(other.func, ast.Attribute) and \
                    other.func.attr in _STR_METHODS:
                if isinstance(op, (ast.Eq, ast.Is)):
                    return False
                if isinstance(op, (ast.NotEq, ast.IsNot)):
                    return True
        if a is UNKNOWN or b is UNKNOWN:
            return UNKNOWN
        try:
            if isinstance(op, ast.Is):
                return a is b if (a is None or b is None or
                                  isinstance(a, bool) or isinstance(b, bool)) \
                    else UNKNOWN
            if isinstance(op, ast.IsNot):
                return a is not b if (a is None or b is None or
                                      isinstance(a, bool) or
                                      isinstance(b, bool)) else UNKNOWN
            if isinstance(op, ast.Eq):
                return a == b
            if isinstance(op, ast.NotEq):
                return a != b
            if isinstance(op, ast.In):
                return a in b
            if isinstance(op, ast.NotIn):
                return a not in b
            if isinstance(op, ast.Lt):
                return a < b
            if isinstance(op, ast.LtE):
                return a <= b
            if isinstance(op, ast.Gt):
                return a > b
            if isinstance(op, ast.GtE):
                return a >= b
        except TypeError:
            return UNKNOWN
    return UNKNOWN


def _lookup_at(path, pos, consts, params):
    """name -> value at position `pos` of the path's effects"""
    def look(name, _seen=()):
        if name in _seen:
            return UNKNOWN
        # last assignment to the name among effects[:pos]
        for i in range(min(pos, len(path.effects)) - 1, -1, -1):
            st = path.effects[i]
            if isinstance(st, (ast.For, ast.While, ast.AsyncFor)):
                if any(isinstance(x, ast.Name) and x.id == name and
                       isinstance(x.ctx, ast.Store) for x in ast.walk(st)):
                    return UNKNOWN
                continue
            stores = [x for x in ast.walk(st) if isinstance(x, ast.Name) and
                      x.id == name and isinstance(x.ctx, (ast.Store,
                                                          ast.Del))]
            if not stores:
                continue
            if isinstance(st, ast.Assign) and len(st.targets) == 1 and \
                    isinstance(st.targets[0], ast.Name):
                return evaluate(
                    st.value,
                    lambda n: _lookup_at(path, i, consts, params)(n))
            return UNKNOWN
        if name in consts:
            return consts[name]
        return UNKNOWN
    return look


def reachable_under(target, stmt, consts, max_paths=3000):
    """(reachable?, paths_examined).  `stmt` is a statement node of
    target.node; None for `reachable` when the paths cannot be enumerated"""
    paths = return_paths(target, max_paths=max_paths, inline=False)
    if paths is None:
        return None, 0
    n = 0
    for p in paths:
        idx = next((i for i, e in enumerate(p.effects) if e is stmt), None)
        if idx is None:
            continue
        n += 1
        feasible = True
        for (expr, pol), pos in zip(p.facts, p.fact_pos):
            if pos > idx:
                continue
            v = evaluate(expr, _lookup_at(p, pos, consts, target.params))
            if v is UNKNOWN:
                continue
            if bool(v) != pol:
                feasible = False
                break
        if feasible:
            return True, n
    return False, n


def may_return_given(func, given, max_states=400):
    """Can `func` return normally when its parameters have the constant
    values `given` ({name: python value})?  A small forward evaluation with
    an environment of known constants (None, booleans, numbers, strings,
    empty list / tuple): an `if` whose test is decided takes that branch, a
    `for` over a known-empty sequence is skipped; everything else is
    explored conservatively (both branches, a loop body zero or more times
    with the names it binds forgotten).  False means: every way through
    the function ends in a `raise` - e.g. `_get_rslt_params(None, ...)`
    normalises None to [], finds no output parameter in it and raises."""
    budget = [max_states]

    def bound_names(stmts):
        out = set()
        for st in stmts:
            for x in ast.walk(st):
                if isinstance(x, ast.Name) and \
                        isinstance(x.ctx, (ast.Store, ast.Del)):
                    out.add(x.id)
        return out

    def value(e, env):
        if isinstance(e, (ast.List, ast.Tuple)) and not e.elts:
            return ()
        if isinstance(e, ast.Call) and isinstance(e.func, ast.Name) and \
                e.func.id in ('list', 'tuple', 'dict', 'set') and \
                not e.args and not e.keywords:
            return ()
        if isinstance(e, ast.Dict) and not e.keys:
            return ()
        return evaluate(e, lambda n: env.get(n, UNKNOWN))

    def block(stmts, env):
        """list of environments with which the block may fall through;
        raises _Returns when a return is reachable"""
        envs = [env]
        for st in stmts:
            nxt = []
            for e in envs:
                nxt += stmt(st, e)
            envs = nxt
            if not envs:
                return []
            if len(envs) > 8:
                # merge: keep only what all agree on
                common = dict(envs[0])
                for o in envs[1:]:
                    for k in list(common):
                        if k not in o or o[k] is not common[k] and \
                                o[k] != common[k]:
                            del common[k]
                envs = [common]
        return envs

    class _Returns(Exception):
        pass

    def forget(env, names):
        env = dict(env)
        for n in names:
            env.pop(n, None)
        return env

    def stmt(st, env):
        budget[0] -= 1
        if budget[0] < 0:
            raise _Returns()          # give up: assume it may return
        if isinstance(st, ast.Return):
            raise _Returns()
        if isinstance(st, ast.Raise):
            return []
        if isinstance(st, (ast.FunctionDef, ast.AsyncFunctionDef,
                           ast.ClassDef, ast.Pass, ast.Import,
                           ast.ImportFrom, ast.Global, ast.Nonlocal)):
            return [env]
        if isinstance(st, ast.Assign):
            env = dict(env)
            v = value(st.value, env)
            for t in st.targets:
                if isinstance(t, ast.Name):
                    if v is UNKNOWN:
                        env.pop(t.id, None)
                    else:
                        env[t.id] = v
                else:
                    for x in ast.walk(t):
                        if isinstance(x, ast.Name) and \
                                isinstance(x.ctx, ast.Store):
                            env.pop(x.id, None)
            return [env]
        if isinstance(st, (ast.AugAssign, ast.AnnAssign, ast.Delete)):
            return [forget(env, bound_names([st]))]
        if isinstance(st, ast.If):
            t = value(st.test, env)
            if t is UNKNOWN:
                return block(st.body, env) + block(st.orelse, env)
            return block(st.body if t else st.orelse, env)
        if isinstance(st, (ast.For, ast.AsyncFor)):
            it = value(st.iter, env)
            if it is not UNKNOWN and isinstance(it, (tuple, str)) and \
                    len(it) == 0:
                return block(st.orelse, env)
            inner = forget(env, bound_names([st]))
            block(st.body, inner)               # may raise _Returns
            return block(st.orelse, inner) if st.orelse else [inner]
        if isinstance(st, ast.While):
            inner = forget(env, bound_names([st]))
            block(st.body, inner)
            return [inner]
        if isinstance(st, ast.With):
            return block(st.body, forget(env, bound_names(
                [ast.Expr(value=i.optional_vars) for i in st.items
                 if i.optional_vars is not None])))
        if isinstance(st, ast.Try):
            inner = forget(env, bound_names(st.body))
            outs = block(st.body, env)
            outs2 = []
            for o in outs:
                outs2 += block(st.orelse, o) if st.orelse else [o]
            for h in st.handlers:
                outs2 += block(h.body, inner)
            if st.finalbody:
                fin = []
                for o in outs2 or [inner]:
                    fin += block(st.finalbody, o)
                return fin if outs2 else []
            return outs2
        if isinstance(st, (ast.Break, ast.Continue)):
            return [env]
        return [env]

    from .model import strip_docstring
    try:
        ends = block(strip_docstring(func.node.body), dict(given))
    except _Returns:
        return True
    return bool(ends)
