#!/usr/bin/env python3
"""check.py <Cxx> [--tier quick|thorough] [--replay file]

Static decision procedure for one property of /repo (see DESIGN.md).
Exit 0: every rule held on every enumerated site (known findings listed).
Exit 1: VIOLATION line printed.  Exit 2: ANALYSIS-ERROR (anchor vanished,
floor not met, analyser crashed) - never a silent pass.
"""
import argparse
import importlib
import json
import os
import sys
import traceback

HERE = os.path.dirname(os.path.abspath(__file__))
sys.path.insert(0, HERE)

from pwsa.model import Repo, AnalysisError  # noqa: E402
from pwsa.report import Report  # noqa: E402


def run_property(prop, tier, overlay=None, quiet=False, root=None):
    mod = importlib.import_module('pwsa.rules.%s' % prop.lower())
    rep = Report(prop, tier, mod.EXPLANATION,
                 getattr(mod, 'ASSUMPTIONS', []))
    try:
        repo = Repo(root=root, overlay=overlay)
        mod.run(repo, rep, tier)
    except AnalysisError as e:
        rep.error(str(e))
    except Exception as e:  # analyser bug: fail closed, not as a violation
        tb = traceback.format_exc().strip().splitlines()
        rep.error('analyser crashed: %r at %s' % (e, ' | '.join(tb[-3:])))
    return rep


def main():
    ap = argparse.ArgumentParser()
    ap.add_argument('prop')
    ap.add_argument('--tier', default=os.environ.get('VERIF_TIER', 'quick'),
                    choices=['quick', 'thorough'])
    ap.add_argument('--replay')
    ap.add_argument('--no-selftest', action='store_true')
    a = ap.parse_args()
    prop = a.prop.upper()
    if a.replay:
        with open(a.replay, encoding='utf-8') as f:
            data = json.load(f)
        for v in data.get('violations', []):
            print('%(file)s:%(line)s %(rule)s [%(function)s] %(construct)s: '
                  '%(message)s' % v)
        print('re-running the static check on the current tree:')
    rep = run_property(prop, a.tier)
    if a.tier == 'thorough' and not a.no_selftest:
        try:
            from selftest import runner
            st = runner.run_for_property(prop)
            rep.extra['selftest'] = st['summary']
            for m in st['errors']:
                rep.error('selftest: ' + m)
        except Exception as e:
            tb = traceback.format_exc().strip().splitlines()
            rep.error('selftest crashed: %r %s' % (e, ' | '.join(tb[-3:])))
    code, _, _ = rep.finish()
    sys.exit(code)


if __name__ == '__main__':
    main()
