#!/usr/bin/env python3
"""tools/kf.py known|reviewed|fixed <prop> <key> <text> [commit]  - edit the committed tables (never at check time)."""
import json, sys, os
V = os.path.dirname(os.path.dirname(os.path.abspath(__file__)))
kind, prop, key, text = sys.argv[1:5]
if kind in ('known', 'fixed'):
    p = os.path.join(V, 'tables', 'known_findings.json')
    d = json.load(open(p))
    if kind == 'known':
        d['findings'] = [e for e in d['findings'] if not (e['property'] == prop and e['key'] == key)]
        d['findings'].append({'property': prop, 'key': key, 'what': text})
    else:
        commit = sys.argv[5]
        d['fixed'].append('fixed: property=%s %s %s' % (prop, commit, text))
        d.setdefault('fixed_keys', []).append({'property': prop, 'key': key, 'commit': commit})
else:
    p = os.path.join(V, 'tables', 'reviewed_safe.json')
    d = json.load(open(p))
    d['entries'] = [e for e in d['entries'] if not (e['property'] == prop and e['key'] == key)]
    d['entries'].append({'property': prop, 'key': key, 'reason': text})
json.dump(d, open(p, 'w'), indent=1)
