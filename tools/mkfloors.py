"""Add floors (80% of the current site count, at least 1) for rules that
have none yet.  Existing floors are never lowered by this tool."""
import glob
import json
import os

HERE = os.path.dirname(os.path.dirname(os.path.abspath(__file__)))
path = os.path.join(HERE, 'tables', 'floors.json')
floors = json.load(open(path))
added = {}
for ev in sorted(glob.glob(os.path.join(HERE, 'evidence', 'C??.json'))):
    d = json.load(open(ev))
    for r in d['coverage'].get('rules', []):
        rid, sites = r['rule'], r.get('sites', 0)
        if rid not in floors and sites >= 2:
            floors[rid] = added[rid] = max(1, int(sites * 0.8))
json.dump(dict(sorted(floors.items())), open(path, 'w'), indent=1)
print('added', added)
