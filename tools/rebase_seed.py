"""Make seeded/<id>/patch.diff apply to /repo's current HEAD.

  python tools/rebase_seed.py <seed-id> [...]   (or --all)

If `git apply --check` fails, the patch is applied with `patch --fuzz=3` in a
scratch worktree of HEAD (under /tmp, removed afterwards) and re-exported.
In every case the demo is run there with and without the change (must be
non-zero / zero) and the result is recorded in meta.json under
"rebased"."""
import glob
import json
import os
import shutil
import subprocess
import sys

HERE = os.path.dirname(os.path.dirname(os.path.abspath(__file__)))
SEEDED = os.path.join(HERE, 'seeded')
PY = '/venv/bin/python'


def sh(cmd, cwd=None, timeout=900):
    env = dict(os.environ)
    env['PATH'] = env.get('PATH', '') + ':/root/miniconda/bin'
    p = subprocess.run(cmd, cwd=cwd, shell=True, stdout=subprocess.PIPE,
                       stderr=subprocess.STDOUT, timeout=timeout, env=env)
    return p.returncode, p.stdout.decode('utf-8', 'replace')


def one(sid):
    d = os.path.join(SEEDED, sid)
    patch = os.path.join(d, 'patch.diff')
    meta = json.load(open(os.path.join(d, 'meta.json')))
    head = sh('git rev-parse --short HEAD', '/repo')[1].strip()
    wt = '/tmp/rebase_%s' % sid
    sh('git worktree remove --force %s' % wt, '/repo')
    shutil.rmtree(wt, ignore_errors=True)
    rc, o = sh('git worktree add --detach %s HEAD' % wt, '/repo')
    if rc != 0:
        print(sid, 'cannot create worktree', o)
        return 2
    try:
        rc, o = sh('git apply %s' % patch, wt)
        how = 'git apply'
        if rc != 0:
            rc, o = sh('patch -p1 --fuzz=3 --no-backup-if-mismatch < %s'
                       % patch, wt)
            how = 'patch --fuzz=3'
            if rc != 0:
                print(sid, 'DOES NOT APPLY:', o[-300:])
                meta['rebased'] = {'head': head, 'applies': False}
                json.dump(meta, open(os.path.join(d, 'meta.json'), 'w'),
                          indent=1)
                return 1
            sh('find . -name "*.orig" -o -name "*.rej" | xargs rm -f', wt)
        rc, diff = sh('git diff -- pywbem pywbem_mock', wt)
        shutil.copy(os.path.join(d, 'demo.py'),
                    os.path.join(wt, 'demo_%s.py' % meta['property']))
        rc1, o1 = sh('unshare -n sh -c "ip link set lo up; %s demo_%s.py"'
                     % (PY, meta['property']), wt)
        sh('git checkout -- pywbem pywbem_mock', wt)
        rc0, o0 = sh('unshare -n sh -c "ip link set lo up; %s demo_%s.py"'
                     % (PY, meta['property']), wt)
        ok = rc1 != 0 and rc0 == 0
        if how != 'git apply' and ok:
            open(patch, 'w').write(diff)
        meta['rebased'] = {'head': head, 'applies': True, 'how': how,
                           'demo_exit_with_change': rc1,
                           'demo_exit_without_change': rc0,
                           'still_a_violation_on_head': ok}
        json.dump(meta, open(os.path.join(d, 'meta.json'), 'w'), indent=1)
        print(sid, how, 'demo with/without:', rc1, rc0,
              'OK' if ok else 'NOT A VIOLATION ON HEAD ANY MORE')
        return 0 if ok else 1
    finally:
        sh('git worktree remove --force %s' % wt, '/repo')
        shutil.rmtree(wt, ignore_errors=True)


if __name__ == '__main__':
    ids = sys.argv[1:]
    if ids == ['--all']:
        ids = sorted(os.path.basename(os.path.dirname(p)) for p in
                     glob.glob(os.path.join(SEEDED, '*', 'meta.json')))
    bad = 0
    for sid in ids:
        bad += 1 if one(sid) else 0
    sys.exit(1 if bad else 0)
