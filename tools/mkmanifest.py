#!/usr/bin/env python3
"""Regenerate MANIFEST.json from tools/claims.json (one entry per property:
claimed check or not_applicable reason)."""
import json, os
HERE = os.path.dirname(os.path.abspath(__file__))
V = os.path.dirname(HERE)
claims = json.load(open(os.path.join(HERE, 'claims.json')))
props = [json.loads(l) for l in open(os.path.join(V, 'properties.jsonl'))]
PY = '/venv/bin/python'
checks, na = [], []
for p in props:
    c = claims.get(p['id'])
    if not c or not c.get('claimed'):
        na.append({'property_id': p['id'],
                   'reason': (c or {}).get('reason', 'check designed (DESIGN.md) but not built yet')})
        continue
    checks.append({
        'property_id': p['id'],
        'quick_cmd': 'PY=/venv/bin/python; [ -x $PY ] || PY=python3; $PY check.py %s --tier quick' % p['id'],
        'thorough_cmd': 'PY=/venv/bin/python; [ -x $PY ] || PY=python3; $PY check.py %s --tier thorough' % p['id'],
        'evidence_file': '/verif/evidence/%s.json' % p['id'],
        'replay_cmd_template': 'python3 check.py %s --replay {path}' % p['id'],
        'engine': 'pwsa',
        'level_claimed': {'category': 'other', 'text': c['text'], 'design_ref': c['design_ref']},
        'level_note': c['note'],
        'technique': c['technique'],
    })
m = {
 'version': 1,
 'setup_cmd': 'PY=/venv/bin/python; [ -x $PY ] || PY=python3; $PY -c "import ast,sys; sys.path.insert(0,\'/verif\'); import pwsa.model" ',
 'hooks': {'guard': 'PYWBEM_VERIF', 'enable': 'no hooks: the checks are static and read /repo\'s working tree; nothing in /repo is instrumented',
           'baseline_off_cmd': 'cd /repo && /venv/bin/python -m pytest -ra -q -p no:cacheprovider --timeout=900 --continue-on-collection-errors',
           'source_commits': [], 'add_only': True},
 'engines': [{'name': 'pwsa', 'path': '/verif/pwsa', 'serves_properties': [c['property_id'] for c in checks],
              'kind_free_text': 'bespoke static analyser over Python ast of /repo working tree: source model + call resolution, statement CFG/dominators, exception-escape analysis, table extraction and sibling comparison, regex-AST and DTD readers; stdlib only, never imports or runs pywbem'}],
 'checks': checks,
 'notes': 'Every check decides necessary structural conditions of its property (DESIGN.md section per property: Decides / Does not decide). Exit 2 + ANALYSIS-ERROR = anchor vanished or analyser failure (fail closed).',
 'not_applicable': na,
}
json.dump(m, open(os.path.join(V, 'MANIFEST.json'), 'w'), indent=1)
print('claimed', len(checks), 'n/a', len(na))
