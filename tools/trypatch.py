"""Apply a unified diff to /repo's current tree IN MEMORY and run the quick
tier of every check on the result (nothing is written to /repo or to
/verif/evidence).

  python tools/trypatch.py <patch.diff | worktree-dir> [Cxx ...]
"""
import os
import subprocess
import sys
from concurrent.futures import ProcessPoolExecutor

HERE = os.path.dirname(os.path.dirname(os.path.abspath(__file__)))
sys.path.insert(0, HERE)


def one(args):
    prop, text = args
    import check
    from selftest.runner import apply_patch
    from pwsa.report import _load_json, KNOWN_PATH, REVIEWED_PATH
    ov = apply_patch(text)
    if ov is None:
        return prop, 'STALE', []
    rep = check.run_property(prop, 'quick', overlay=ov)
    from pwsa.report import unlisted_findings
    hits = unlisted_findings(rep)
    return prop, 'ok', [f.text()[:400] for f in hits] + \
        ['ANALYSIS-ERROR ' + m[:300] for m in list(rep.analysis_errors) + rep.floor_errors()]


def main():
    src = sys.argv[1]
    if os.path.isdir(src):
        text = subprocess.run('git diff -- pywbem pywbem_mock', cwd=src,
                              shell=True, stdout=subprocess.PIPE
                              ).stdout.decode()
    else:
        text = open(src).read()
    props = [p.upper() for p in sys.argv[2:]] or \
        ['C%02d' % i for i in range(1, 21)]
    with ProcessPoolExecutor(max_workers=16) as ex:
        res = list(ex.map(one, [(p, text) for p in props]))
    det = []
    for prop, status, hits in res:
        if status != 'ok':
            print(prop, status)
        elif hits:
            det.append(prop)
            for h in hits[:4]:
                print('%s: %s' % (prop, h))
    print('detected by:', det or 'NOTHING')


if __name__ == '__main__':
    main()
