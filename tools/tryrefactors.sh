#!/bin/sh
# run every behaviour-preserving refactoring patch through all checks; any detection is a false alarm
for s in A B C D; do for f in /tmp/seedtask/ref$s/refactor_*.patch; do
  r=$(/venv/bin/python /verif/tools/trypatch.py $f 2>&1 | grep -v conda | grep -v "^detected by" | cut -c1-230)
  d=$(/venv/bin/python /verif/tools/trypatch.py $f 2>&1 | grep "^detected by")
  echo "== ref$s $(basename $f) $d"; [ -n "$r" ] && echo "$r" | head -6
done; done
