#!/bin/sh
# run every behaviour-preserving refactoring patch (selftest/refactors/) through all checks,
# 12 at a time; any detection is a false alarm
cd /verif
ls selftest/refactors/ref*_*.patch | xargs -P 12 -I{} sh -c '/venv/bin/python tools/trypatch.py {} > /tmp/ref_out_$(basename {}).txt 2>&1'
for f in selftest/refactors/ref*_*.patch; do
  o=/tmp/ref_out_$(basename $f).txt
  echo "== $(basename $f) $(grep "^detected by" $o) $(grep -q STALE $o && echo STALE-PATCH)"
  grep -v conda $o | grep -v '^detected by' | cut -c1-230 | head -6
  rm -f $o
done
