"""Try ad-hoc source edits (in memory, nothing is written to /repo) against
all 20 checks and print which rule reports each one.

  python tools/tryedit.py edits.py [Cxx ...]

edits.py defines EDITS = [(name, [(relpath, old, new), ...]), ...]
"""
import os
import runpy
import sys
from concurrent.futures import ProcessPoolExecutor

HERE = os.path.dirname(os.path.dirname(os.path.abspath(__file__)))
sys.path.insert(0, HERE)

from pwsa import model  # noqa: E402


def overlay_of(edits):
    ov = {}
    for ed in edits:
        rel, old, new = ed[:3]
        src = ov.get(rel)
        if src is None:
            with open(os.path.join(model.REPO, rel), encoding='utf-8') as f:
                src = f.read()
        if len(ed) > 3:
            # (rel, old, new, k): replace the k-th occurrence (0-based)
            pos = -1
            for _ in range(ed[3] + 1):
                pos = src.find(old, pos + 1)
                if pos < 0:
                    return None, '%s: occurrence %d not found' % (rel, ed[3])
            ov[rel] = src[:pos] + new + src[pos + len(old):]
            continue
        if src.count(old) != 1:
            return None, '%s: old text occurs %d times' % (rel,
                                                           src.count(old))
        ov[rel] = src.replace(old, new)
    return ov, None


def one(args):
    name, edits, prop = args
    import check
    from pwsa.report import _load_json, KNOWN_PATH, REVIEWED_PATH
    ov, err = overlay_of(edits)
    if ov is None:
        return name, prop, 'STALE ' + err, []
    for rel, src in ov.items():
        try:
            compile(src, rel, 'exec')
        except SyntaxError as e:
            return name, prop, 'SYNTAX %s' % e, []
    rep = check.run_property(prop, 'quick', overlay=ov)
    known = {e['key'] for e in _load_json(KNOWN_PATH, {}).get('findings', [])
             if e.get('property') == prop}
    rev = {e['key'] for e in _load_json(REVIEWED_PATH, {}).get('entries', [])
           if e.get('property') == prop}
    hits = [f for rr in rep.rules for f in rr.findings
            if f.key not in known and f.key not in rev]
    return name, prop, 'ok', [f.key[:200] for f in hits] + \
        ['ANALYSIS-ERROR ' + m[:200] for m in list(rep.analysis_errors) + rep.floor_errors()]


def main():
    ns = runpy.run_path(sys.argv[1])
    props = [p.upper() for p in sys.argv[2:]] or \
        ['C%02d' % i for i in range(1, 21)]
    jobs = [(name, edits, p) for name, edits in ns['EDITS'] for p in props]
    with ProcessPoolExecutor(max_workers=16) as ex:
        res = list(ex.map(one, jobs))
    by = {}
    for name, prop, status, hits in res:
        by.setdefault(name, []).append((prop, status, hits))
    for name, _ in ns['EDITS']:
        rows = by[name]
        bad = [r for r in rows if r[1] != 'ok']
        if bad:
            print('%-40s %s' % (name, bad[0][1]))
            continue
        det = [(p, h) for p, _, h in rows if h]
        if not det:
            print('%-40s MISSED' % name)
        for p, h in det:
            print('%-40s %s: %s' % (name, p, h[0][:150]))
    return 0


if __name__ == '__main__':
    sys.exit(main())
