"""copy pywbem/ and pywbem_mock/ into DEST with every function-local variable (not parameters) renamed (suffix _v)"""
import ast, os, sys, symtable, shutil
SRC, DEST = sys.argv[1], sys.argv[2]
class Ren(ast.NodeTransformer):
    def __init__(self): self.stack=[]
    def visit_FunctionDef(self, node):
        params={a.arg for a in node.args.args+node.args.posonlyargs+node.args.kwonlyargs}
        if node.args.vararg: params.add(node.args.vararg.arg)
        if node.args.kwarg: params.add(node.args.kwarg.arg)
        assigned=set(); declared=set()
        for n in ast.walk(node):
            if n is not node and isinstance(n,(ast.FunctionDef,ast.AsyncFunctionDef,ast.Lambda,ast.ClassDef)):
                pass
            if isinstance(n,(ast.Global,ast.Nonlocal)): declared|=set(n.names)
        # only names stored directly in this function body (not nested defs)
        def stores(n, top=True):
            for c in ast.iter_child_nodes(n):
                if isinstance(c,(ast.FunctionDef,ast.AsyncFunctionDef,ast.Lambda,ast.ClassDef)):
                    if isinstance(c,(ast.FunctionDef,ast.AsyncFunctionDef,ast.ClassDef)): pass
                    continue
                if isinstance(c,ast.Name) and isinstance(c.ctx,(ast.Store,ast.Del)): assigned.add(c.id)
                if isinstance(c,ast.ExceptHandler) and c.name: pass
                stores(c, False)
        stores(node)
        # skip functions containing nested defs/lambdas/comprehension scoping issues (closures)
        has_nested=any(isinstance(n,(ast.FunctionDef,ast.AsyncFunctionDef,ast.Lambda,ast.ClassDef)) for n in ast.walk(node) if n is not node)
        ren={} if has_nested else {v:v+'_v' for v in assigned-params-declared if not v.startswith('__') and v!='_'}
        self.stack.append(ren)
        node.body=[self.visit(s) for s in node.body]
        self.stack.pop()
        return node
    visit_AsyncFunctionDef=visit_FunctionDef
    def visit_Name(self, node):
        if self.stack and node.id in self.stack[-1]:
            node.id=self.stack[-1][node.id]
        return node
    def visit_ClassDef(self, node):
        self.stack.append({})
        node.body=[self.visit(s) for s in node.body]
        self.stack.pop()
        return node
for pkg in ('pywbem','pywbem_mock'):
    for root,dirs,files in os.walk(os.path.join(SRC,pkg)):
        for f in files:
            sp=os.path.join(root,f); dp=os.path.join(DEST,os.path.relpath(sp,SRC))
            os.makedirs(os.path.dirname(dp),exist_ok=True)
            if f.endswith('.py') and '_vendor' not in sp and f!='_moflextab.py' and f!='_mofparsetab.py':
                t=ast.parse(open(sp).read())
                t=Ren().visit(t); ast.fix_missing_locations(t)
                open(dp,'w').write(ast.unparse(t)+'\n')
            else:
                shutil.copy(sp,dp)
os.makedirs(os.path.join(DEST,'tests/dtd'),exist_ok=True)
shutil.copy(os.path.join(SRC,'tests/dtd/DSP0203_2.3.1.dtd'),os.path.join(DEST,'tests/dtd/'))
