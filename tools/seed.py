"""Seeded-breakage bookkeeping.

  python tools/seed.py keep <Cxx> <worktree> <verify.json> [<seed-id>]
      copy patch + demo + notes from the agent's worktree into
      /verif/seeded/<seed-id>/ and write meta.json (only if the verify
      result says confirmed)

  python tools/seed.py run <seed-id> [--all]
      git -C /repo apply seeded/<seed-id>/patch.diff, run the check of the
      seed's property (or all 20 with --all) against /repo, undo with
      git -C /repo checkout -- . , and record the outcome in
      seeded/<seed-id>/meta.json under "checks"

  python tools/seed.py table
      print the seed x check table (markdown) for DESIGN.md
"""
import glob
import json
import os
import shutil
import subprocess
import sys

HERE = os.path.dirname(os.path.dirname(os.path.abspath(__file__)))
SEEDED = os.path.join(HERE, 'seeded')
PY = '/venv/bin/python'


def sh(cmd, cwd=None):
    p = subprocess.run(cmd, cwd=cwd, shell=True, stdout=subprocess.PIPE,
                       stderr=subprocess.STDOUT)
    return p.returncode, p.stdout.decode('utf-8', 'replace')


def keep(pid, wt, verify, sid=None):
    sid = sid or pid
    v = json.load(open(verify))
    if not v.get('confirmed'):
        print('not confirmed - not kept')
        return 1
    d = os.path.join(SEEDED, sid)
    os.makedirs(d, exist_ok=True)
    rc, diff = sh('git diff -- pywbem pywbem_mock', wt)
    open(os.path.join(d, 'patch.diff'), 'w').write(diff)
    shutil.copy(os.path.join(wt, 'demo_%s.py' % pid),
                os.path.join(d, 'demo.py'))
    notes = os.path.join(wt, 'notes_%s.md' % pid)
    needs = open(notes).read() if os.path.exists(notes) else ''
    meta = {
        'seed': sid,
        'property': pid,
        'files': v['files'],
        'needs_to_manifest': needs,
        'confirmed_by': {
            'tool': 'tools/verify_seed.py (run by the main session in the '
                    'scratch worktree, not in /repo)',
            'compiles': v['compiles'],
            'demo_exit_with_change': v['demo_with_change_rc'],
            'demo_exit_without_change': v['demo_without_change_rc'],
            'suite': v.get('suite_tail'),
            'stable_pass_total': v.get('stable_pass_total'),
            'stable_pass_lost': v.get('stable_pass_lost_count'),
            'rerun': v.get('rerun'),
        },
        'how_to_run': 'git -C /repo apply /verif/seeded/%s/patch.diff && '
                      'cd /repo && %s /verif/seeded/%s/demo.py ; '
                      'git -C /repo checkout -- .' % (sid, PY, sid),
    }
    json.dump(meta, open(os.path.join(d, 'meta.json'), 'w'), indent=1)
    print('kept', d)
    return 0


def run(sid, allprops=False):
    """run the quick tier of the checks against /repo's current tree with the
    seed's patch applied IN MEMORY (nothing is written to /repo), record
    the outcome in meta.json"""
    sys.path.insert(0, HERE)
    sys.path.insert(0, os.path.join(HERE, 'tools'))
    from concurrent.futures import ProcessPoolExecutor
    import trypatch
    d = os.path.join(SEEDED, sid)
    meta = json.load(open(os.path.join(d, 'meta.json')))
    text = open(os.path.join(d, 'patch.diff')).read()
    rc, o = sh('git apply --check %s' % os.path.join(d, 'patch.diff'),
               '/repo')
    meta['applies_to_repo_head'] = rc == 0
    props = ['C%02d' % i for i in range(1, 21)] if allprops \
        else [meta['property']]
    with ProcessPoolExecutor(max_workers=16) as ex:
        res = list(ex.map(trypatch.one, [(p, text) for p in props]))
    results = {}
    for prop, status, hits in res:
        results[prop] = {'exit': 1 if hits else (2 if status != 'ok' else 0),
                         'findings': [h[:300] for h in hits][:6]}
    meta.setdefault('checks', {}).update(results)
    own = results.get(meta['property'], {})
    meta['detected_by_own_check'] = own.get('exit') == 1
    meta['detected_by'] = sorted(p for p, r in meta['checks'].items()
                                 if r['exit'] == 1)
    json.dump(meta, open(os.path.join(d, 'meta.json'), 'w'), indent=1)
    print(sid, 'applies:', meta['applies_to_repo_head'], 'detected by',
          meta['detected_by'])
    return 0


def table():
    print('| seed | property | change | detected by (rule) |')
    print('|---|---|---|---|')
    for mf in sorted(glob.glob(os.path.join(SEEDED, '*', 'meta.json'))):
        m = json.load(open(mf))
        rules = []
        for p in m.get('detected_by', []):
            for f in m['checks'][p]['findings'][:2]:
                parts = f.split()
                for w in parts[:3]:
                    if w.startswith(p + '.R'):
                        rules.append(w)
        print('| %s | %s | %s | %s |' % (
            m['seed'], m['property'], ', '.join(m['files']),
            ', '.join(sorted(set(rules))) or '**missed**'))


if __name__ == '__main__':
    cmd = sys.argv[1]
    if cmd == 'keep':
        sys.exit(keep(*sys.argv[2:6]))
    if cmd == 'run':
        sys.exit(run(sys.argv[2], '--all' in sys.argv))
    if cmd == 'table':
        table()
