"""Run the quick tier of every check against another checkout of pywbem
(a sub-agent's scratch worktree) without touching /repo or /verif/evidence.

  python tools/trywt.py <root> [Cxx ...]

Prints, per property, the exit code and the FINDING / ANALYSIS-ERROR lines.
"""
import contextlib
import io
import os
import sys
import tempfile
from concurrent.futures import ProcessPoolExecutor

HERE = os.path.dirname(os.path.dirname(os.path.abspath(__file__)))
sys.path.insert(0, HERE)


def one(args):
    prop, root = args
    import check
    from pwsa import report
    report.VERIF = tempfile.mkdtemp(prefix='trywt_')
    buf = io.StringIO()
    with contextlib.redirect_stdout(buf):
        rep = check.run_property(prop, 'quick', root=root)
        code, viol, known = rep.finish()
    lines = [ln for ln in buf.getvalue().splitlines()
             if ln.startswith(('FINDING', 'ANALYSIS-ERROR'))]
    import shutil
    shutil.rmtree(report.VERIF, ignore_errors=True)
    return prop, code, lines


def main():
    root = sys.argv[1]
    props = [p.upper() for p in sys.argv[2:]] or \
        ['C%02d' % i for i in range(1, 21)]
    with ProcessPoolExecutor(max_workers=min(16, len(props))) as ex:
        res = list(ex.map(one, [(p, root) for p in props]))
    hit = []
    for prop, code, lines in res:
        if code != 0:
            hit.append(prop)
            print('%s exit=%d' % (prop, code))
            for ln in lines[:8]:
                print('   ' + ln[:400])
    print('detected by:', hit or 'NOTHING')
    return 0


if __name__ == '__main__':
    sys.exit(main())
