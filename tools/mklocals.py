"""Regenerate tables/local_names.json (first-binding order of the locals of
every function) from /repo's current tree - the reference for pwsa/alpha.py.
Run only on a tree on which all checks pass with their expected names."""
import json
import os
import sys

HERE = os.path.dirname(os.path.dirname(os.path.abspath(__file__)))
sys.path.insert(0, HERE)
from pwsa import alpha, model  # noqa: E402

t = alpha.build_table(model.REPO, model.PACKAGES)
with open(alpha.TABLE, 'w', encoding='utf-8') as f:
    json.dump(t, f, indent=0, sort_keys=True)
    f.write('\n')
print('functions:', sum(len(v) for v in t.values()))
