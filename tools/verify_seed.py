"""Confirm a seeded breakage produced by a sub-agent, in its scratch worktree.

  python tools/verify_seed.py <Cxx> <worktree> [--no-suite]

Steps (nothing touches /repo):
  1. the worktree has a non-empty diff limited to pywbem/ and pywbem_mock/;
     every changed file byte-compiles
  2. the demo exits non-zero with the change
  3. the change is reverted (git apply -R): the demo exits 0; re-applied
  4. the pinned test suite is run in the worktree with the change; every test
     of BASELINE.json's stable_pass list still passes
Prints a JSON summary; exit 0 iff all of the above hold.
"""
import json
import os
import subprocess
import sys
import xml.etree.ElementTree as ET

PY = '/venv/bin/python'


def sh(cmd, cwd, timeout=3600, isolate=False):
    if isolate:
        # private network namespace: listener tests bind fixed ports and
        # collide with suites running in other worktrees otherwise
        cmd = "unshare -n sh -c 'ip link set lo up; %s'" % cmd
    env = dict(os.environ)
    # the DTD-validating tests call xmllint, which lives in the conda base
    # environment that is not on every shell's PATH
    if '/root/miniconda/bin' not in env.get('PATH', ''):
        env['PATH'] = env.get('PATH', '') + ':/root/miniconda/bin'
    p = subprocess.run(cmd, cwd=cwd, shell=True, stdout=subprocess.PIPE,
                       stderr=subprocess.STDOUT, timeout=timeout, env=env)
    return p.returncode, p.stdout.decode('utf-8', 'replace')


def main():
    pid, wt = sys.argv[1], sys.argv[2]
    suite = '--no-suite' not in sys.argv
    only = None
    for a in sys.argv:
        if a.startswith('--modules='):
            only = a.split('=', 1)[1].split(',')
    out = {'property': pid, 'worktree': wt}
    rc, diff = sh('git diff -- pywbem pywbem_mock', wt)
    out['diff_lines'] = len(diff.splitlines())
    rc, names = sh('git diff --name-only', wt)
    files = [f for f in names.split() if f]
    out['files'] = files
    ok = bool(diff.strip()) and all(
        f.startswith(('pywbem/', 'pywbem_mock/')) for f in files)
    patch = '/tmp/verify_%s.patch' % pid
    with open(patch, 'w') as f:
        f.write(diff)
    rc, o = sh('%s -m py_compile %s' % (PY, ' '.join(files)), wt)
    out['compiles'] = rc == 0
    demo = 'demo_%s.py' % pid
    rc, o = sh('%s %s' % (PY, demo), wt, 900)
    out['demo_with_change_rc'] = rc
    out['demo_with_change_tail'] = o[-600:]
    rc2, o2 = sh('git apply -R %s' % patch, wt)
    if rc2 != 0:
        out['error'] = 'cannot revert: ' + o2
        print(json.dumps(out, indent=1))
        return 1
    try:
        rc, o = sh('%s %s' % (PY, demo), wt, 900)
        out['demo_without_change_rc'] = rc
        out['demo_without_change_tail'] = o[-300:]
    finally:
        rc3, o3 = sh('git apply %s' % patch, wt)
    ok = ok and out['compiles'] and out['demo_with_change_rc'] != 0 and \
        out['demo_without_change_rc'] == 0 and rc3 == 0
    if suite:
        junit = '/tmp/verify_%s.junit.xml' % pid
        rc, o = sh('%s -m pytest -ra -q -p no:cacheprovider --timeout=900 '
                   '--continue-on-collection-errors --junitxml=%s %s'
                   % (PY, junit, ' '.join(only or [])), wt, 7200, isolate=True)
        out['suite_tail'] = o.strip().splitlines()[-1] if o.strip() else ''
        passed = set()
        for tc in ET.parse(junit).getroot().iter('testcase'):
            bad = any(ch.tag in ('failure', 'error', 'skipped')
                      for ch in tc)
            if not bad:
                passed.add(('%s::%s' % (tc.get('classname'),
                                        tc.get('name'))).replace(wt, '/repo'))
        base = json.load(open('/root/.vp/BASELINE.json'))
        stable = base['stable_pass']
        if only:
            pref = tuple(m[:-3].replace('/', '.') for m in only)
            stable = [t for t in stable if t.startswith(pref)]
            out['only_modules'] = only
        lost = [t for t in stable if t not in passed]
        if lost and len(lost) < 200:
            # port collisions with suites running concurrently in other
            # worktrees: re-run the affected test modules once, alone
            def modpath(t):
                parts = t.split('::')[0].split('.')
                while parts and not parts[-1].startswith('test_'):
                    parts.pop()
                return '/'.join(parts) + '.py'
            mods = sorted({modpath(t)
                           for t in lost if t.startswith('tests.')})
            if mods:
                rc, o = sh('%s -m pytest -q -p no:cacheprovider '
                           '--timeout=900 --junitxml=%s %s'
                           % (PY, junit, ' '.join(mods)), wt, 7200, isolate=True)
                out['rerun'] = {'modules': mods,
                                'tail': o.strip().splitlines()[-1]}
                for tc in ET.parse(junit).getroot().iter('testcase'):
                    if not any(ch.tag in ('failure', 'error', 'skipped')
                               for ch in tc):
                        passed.add(('%s::%s' % (
                            tc.get('classname'),
                            tc.get('name'))).replace(wt, '/repo'))
                lost = [t for t in lost if t not in passed]
        out['stable_pass_total'] = len(stable)
        out['stable_pass_lost'] = lost[:20]
        out['stable_pass_lost_count'] = len(lost)
        ok = ok and not lost
        os.remove(junit)
    os.remove(patch)
    out['confirmed'] = ok
    print(json.dumps(out, indent=1))
    return 0 if ok else 1


if __name__ == '__main__':
    sys.exit(main())
